import Probe.Proc

/-! Spike proofs for C11: listing equals the per-instance fold spec, for every history. -/

theorem Infos.get?_set_same (l : Infos) (i : Nat) (v : Info) : (l.set i v).get? i = some v := by
  induction l with
  | nil => simp [Infos.set, Infos.get?]
  | cons h t ih => obtain ⟨k, w⟩ := h; grind [Infos.set, Infos.get?]

theorem Infos.get?_set_other (l : Infos) (i j : Nat) (v : Info) (h : j ≠ i) :
    (l.set i v).get? j = l.get? j := by
  induction l with
  | nil => grind [Infos.set, Infos.get?]
  | cons hd t ih => obtain ⟨k, w⟩ := hd; grind [Infos.set, Infos.get?]

/-- every listed instance has an entry whose state is a running state or STOPPING -/
def ListedOk (infos : Infos) (running : List Nat) : Prop :=
  ∀ j ∈ running, ∃ v, infos.get? j = some v ∧ (v.state.isRunning = true ∨ v.state = .stopping)

structure PInv (p : Proc) : Prop where
  nodup : p.running.Nodup
  stoppedEmpty : p.state.isStopped = true → p.running = []
  listedOk : ListedOk p.infos p.running

theorem runningState_not_stopped (l : List PState)
    (h : ∃ s ∈ l, s.isRunning = true ∨ s = .stopping) : (runningState l).isStopped = false := by
  obtain ⟨s, hs, hk⟩ := h
  unfold runningState
  cases s <;> simp_all [PState.isRunning] <;> (repeat' split) <;> simp_all [PState.isStopped]

theorem mem_updRunning (p : Proc) (i j : Nat) (s : PState) (hinv : PInv p) :
    j ∈ updRunning p i s ↔
      (if j = i then listedStep (decide (i ∈ p.running)) s = true else j ∈ p.running) := by
  have hnd := hinv.nodup
  have hse := hinv.stoppedEmpty
  unfold updRunning listedStep
  by_cases hji : j = i
  · subst hji
    by_cases h1 : s.isStopped = true
    · have h2 : s.isRunning = false := by cases s <;> simp_all [PState.isStopped, PState.isRunning]
      simp [h1, h2]
      exact fun h => (List.Nodup.mem_erase_iff hnd).mp h |>.1 rfl
    · by_cases h2 : s.isRunning = true
      · by_cases h3 : p.state.isStopped = true
        · simp [h1, h2, h3]
        · by_cases h4 : j ∈ p.running <;> simp [h1, h2, h3, h4]
      · simp [h1, h2]
  · by_cases h1 : s.isStopped = true
    · simp [h1, hji, List.mem_erase_of_ne hji]
    · by_cases h2 : s.isRunning = true
      · by_cases h3 : p.state.isStopped = true
        · have := hse h3
          simp [h1, h2, h3, hji, this]
        · by_cases h4 : i ∈ p.running <;> simp [h1, h2, h3, h4, hji]
      · simp [h1, h2, hji]

theorem nodup_updRunning (p : Proc) (i : Nat) (s : PState) (hinv : PInv p) :
    (updRunning p i s).Nodup := by
  have hnd := hinv.nodup
  unfold updRunning
  repeat' split
  · exact hnd.erase i
  · simp
  · exact hnd
  · rw [List.nodup_append]; simp_all; grind
  · exact hnd

theorem updRunning_infos (p : Proc) (infos : Infos) (forced : Option PState) (i : Nat) (s : PState) :
    updRunning { p with infos := infos, forced := forced } i s = updRunning p i s := rfl

theorem listedStep_true (was : Bool) (s : PState) (h : listedStep was s = true) :
    s.isRunning = true ∨ s = .stopping := by
  unfold listedStep at h
  cases s <;> simp_all [PState.isRunning, PState.isStopped]

/-- after storing `v` (with `v.state = s`) for `i`, every instance listed by `updRunning` has a running-like entry -/
theorem listedOk_updRunning (p : Proc) (i : Nat) (s : PState) (v : Info) (hinv : PInv p)
    (hv : v.state = s) : ListedOk (p.infos.set i v) (updRunning p i s) := by
  intro j hj
  rw [mem_updRunning p i j s hinv] at hj
  by_cases hji : j = i
  · subst hji
    simp at hj
    exact ⟨v, Infos.get?_set_same _ _ _, hv ▸ listedStep_true _ _ hj⟩
  · simp [hji] at hj
    obtain ⟨w, hw, hk⟩ := hinv.listedOk j hj
    exact ⟨w, by rw [Infos.get?_set_other _ _ _ _ hji]; exact hw, hk⟩

/-- the running list computed by `updateStatus` is `updRunning` -/
theorem updateStatus_running (p : Proc) (i : Nat) (s : PState) :
    (updateStatus p i s).running = updRunning p i s := by
  unfold updateStatus
  simp only []
  repeat' split
  all_goals simp_all

theorem updateStatus_infos (p : Proc) (i : Nat) (s : PState) :
    (updateStatus p i s).infos = p.infos := by
  unfold updateStatus
  simp only []
  repeat' split
  all_goals simp_all

theorem filterMap_states_mem (infos : Infos) (run : List Nat) (hok : ListedOk infos run) (j : Nat) (hj : j ∈ run) :
    ∃ st ∈ run.filterMap (fun j => (infos.get? j).map (·.state)), st.isRunning = true ∨ st = .stopping := by
  obtain ⟨v, hv, hk⟩ := hok j hj
  exact ⟨v.state, by simp [List.mem_filterMap]; exact ⟨j, hj, v, hv, rfl⟩, hk⟩

/-- `updateStatus` re-establishes the invariant provided the listed instances have running-like entries -/
theorem updateStatus_inv (p : Proc) (i : Nat) (s : PState)
    (hnd : (updRunning p i s).Nodup) (hok : ListedOk p.infos (updRunning p i s)) :
    PInv (updateStatus p i s) := by
  refine ⟨by rw [updateStatus_running]; exact hnd, ?_, by rw [updateStatus_running, updateStatus_infos]; exact hok⟩
  intro hst
  rw [updateStatus_running]
  unfold updateStatus at hst
  simp only [] at hst
  split at hst
  · -- conflict
    rename_i hlen
    have : ∃ j, j ∈ updRunning p i s := by
      cases h : updRunning p i s with
      | nil => simp [h] at hlen
      | cons a t => exact ⟨a, by simp⟩
    obtain ⟨j, hj⟩ := this
    have := runningState_not_stopped _ (filterMap_states_mem p.infos _ hok j hj)
    simp_all
  · split at hst
    · -- single
      rename_i j hrun
      obtain ⟨v, hv, hk⟩ := hok j (by simp [hrun])
      simp [hv] at hst
      cases hk with
      | inl h => cases hvs : v.state <;> simp_all [PState.isRunning, PState.isStopped]
      | inr h => simp_all [PState.isStopped]
    · -- nobody or (impossible) many
      rename_i hlen hne
      cases h : updRunning p i s with
      | nil => rfl
      | cons a t =>
        cases t with
        | nil => exact absurd h (hne a)
        | cons b u => simp_all

theorem step_inv (p : Proc) (op : Op) (hinv : PInv p) : PInv (step p op) := by
  cases op with
  | report i s e et lt =>
    simp only [step]
    apply updateStatus_inv
    · rw [updRunning_infos]; exact nodup_updRunning p i s hinv
    · rw [updRunning_infos]; exact listedOk_updRunning p i s _ hinv rfl
  | lose i lt =>
    simp only [step]
    split
    · split
      · apply updateStatus_inv
        · rw [updRunning_infos]; exact nodup_updRunning p i .fatal hinv
        · rw [updRunning_infos]; exact listedOk_updRunning p i .fatal _ hinv rfl
      · exact hinv
    · exact hinv

def specStep (i : Nat) (was : Bool) : Op → Bool
  | .report j s _ _ _ => if j = i then listedStep was s else was
  | .lose j _ => if j = i then false else was

theorem step_listed (p : Proc) (op : Op) (hinv : PInv p) (i : Nat) :
    (i ∈ (step p op).running) ↔ specStep i (decide (i ∈ p.running)) op = true := by
  cases op with
  | report j s e et lt =>
    simp only [step, specStep, updateStatus_running, updRunning_infos]
    rw [mem_updRunning p j i s hinv]
    by_cases h : i = j
    · subst h; simp
    · have : ¬ j = i := fun h' => h h'.symm
      simp [h, this]
  | lose j lt =>
    simp only [step, specStep]
    by_cases hj : j ∈ p.running
    · obtain ⟨v, hv, _⟩ := hinv.listedOk j hj
      simp only [hj, hv, if_true, updateStatus_running, updRunning_infos]
      rw [mem_updRunning p j i .fatal hinv]
      by_cases h : i = j
      · subst h; simp [listedStep, PState.isRunning, PState.isStopped]
      · have : ¬ j = i := fun h' => h h'.symm
        simp [h, this]
    · simp only [hj, if_false]
      by_cases h : i = j
      · subst h; simp [hj]
      · have : ¬ j = i := fun h' => h h'.symm
        simp [this]

theorem foldl_listed (ops : List Op) (p : Proc) (hinv : PInv p) (i : Nat) :
    (i ∈ (ops.foldl step p).running) ↔ ops.foldl (specStep i) (decide (i ∈ p.running)) = true := by
  induction ops generalizing p with
  | nil => simp
  | cons op t ih =>
    simp only [List.foldl_cons]
    rw [ih (step p op) (step_inv p op hinv)]
    have := step_listed p op hinv i
    by_cases h : i ∈ (step p op).running
    · simp [h, this.mp h]
    · have h' : specStep i (decide (i ∈ p.running)) op = false := by
        cases hh : specStep i (decide (i ∈ p.running)) op
        · rfl
        · exact absurd (this.mpr hh) h
      simp [h, h']

theorem init_inv : PInv ({} : Proc) := ⟨by simp, by intro; rfl, by intro j hj; simp at hj⟩

/-- **C11 (listing clause)**: for every history over any number of instances, an instance is listed as running
    iff the fold of its own reports says so. -/
theorem C11_listed_iff_spec (ops : List Op) (i : Nat) :
    i ∈ (run ops).running ↔ ops.foldl (specStep i) false = true := by
  have := foldl_listed ops {} init_inv i
  simpa [run] using this

/-- conflict flag iff at least two listed instances (by definition of `conflicting`) + listing is duplicate free -/
theorem C11_running_nodup (ops : List Op) : (run ops).running.Nodup := by
  have : ∀ (ops : List Op) (p : Proc), PInv p → PInv (ops.foldl step p) := by
    intro ops
    induction ops with
    | nil => intro p h; exact h
    | cons op t ih => intro p h; exact ih _ (step_inv p op h)
  exact (this ops {} init_inv).nodup

-- non-vacuity: a concrete history with a conflict
example : (run [.report 1 .running true 1 1, .report 2 .starting true 2 2, .report 1 .stopping true 3 3]).running = [1, 2]
    ∧ (run [.report 1 .running true 1 1, .report 2 .starting true 2 2, .report 1 .stopping true 3 3]).state = .starting := by
  decide
