""" Spike: correspondence of the Lean HostStatisticsInstance model with the real class on generated sample streams. """
import sys, random, subprocess, math, warnings
warnings.filterwarnings('ignore')
from unittest.mock import Mock
from supvisors.statscompiler import HostStatisticsInstance

def show_timed(d): return ';'.join(f"{k}:{len(v[0])}:[{', '.join(str(len(x)) for x in v[1])}]" for k, v in d.items())
def obs(h, r):
    return (f"{r} times={len(h.times)} cpu=[{', '.join(str(len(x)) for x in h.cpu)}] mem={len(h.mem)}"
            f" net={show_timed(h.net_io)} disk={show_timed(h.disk_io)} usage={show_timed(h.disk_usage)}")
def fl(l): return ','.join(map(str, l)) if l else '-'

def main(seed, ncases):
    rnd = random.Random(seed)
    lines = []; out = []; float_viol = 0; points = 0
    for c in range(ncases):
        period = rnd.choice([1, 5, 10]); depth = rnd.choice([1, 2, 3, 10])
        h = HostStatisticsInstance('id', period, depth, Mock())
        lines.append(f"new {period} {depth}"); out.append('ok')
        now = 1000; ncores = rnd.randint(1, 3)
        cpu = [[rnd.randint(0, 100), rnd.randint(0, 100)] for _ in range(ncores)]
        ifs = {k: [rnd.randint(0, 1000), rnd.randint(0, 1000)] for k in rnd.sample(range(5), rnd.randint(0, 3))}
        dks = {k: [rnd.randint(0, 1000), rnd.randint(0, 1000)] for k in rnd.sample(range(5), rnd.randint(0, 2))}
        parts = {k: rnd.randint(0, 100) for k in rnd.sample(range(4), rnd.randint(0, 2))}
        for step in range(rnd.randint(1, 25)):
            now += rnd.choice([0, 1, 2, 5, 7, 12])
            for cc in cpu:
                cc[0] += rnd.choice([0, 0, 3, 10]); cc[1] += rnd.choice([0, 5, 20])
            for d in (ifs, dks):
                for k in list(d):
                    if rnd.random() < 0.1: del d[k]                       # vanishing
                    elif rnd.random() < 0.08: d[k] = [rnd.randint(0, 5), rnd.randint(0, 5)]   # counter wrap
                    else: d[k][0] += rnd.randint(0, 500); d[k][1] += rnd.randint(0, 500)
                if rnd.random() < 0.15:
                    k = rnd.randrange(5)
                    if k not in d: d[k] = [rnd.randint(0, 100), rnd.randint(0, 100)]     # appearing
            if rnd.random() < 0.1 and parts: del parts[rnd.choice(list(parts))]
            if rnd.random() < 0.1: parts[rnd.randrange(4)] = rnd.randint(0, 100)
            stats = {'now': now, 'cpu': [tuple(x) for x in cpu], 'mem': rnd.randint(0, 100),
                     'net_io': {k: tuple(v) for k, v in ifs.items()}, 'disk_io': {k: tuple(v) for k, v in dks.items()},
                     'disk_usage': dict(parts)}
            lines.append(f"push {now} {fl([x for cc in cpu for x in cc])} {stats['mem']} {fl([x for k, v in ifs.items() for x in (k, *v)])}"
                         f" {fl([x for k, v in dks.items() for x in (k, *v)])} {fl([x for k, v in parts.items() for x in (k, v)])}")
            try:
                res = h.push_statistics(stats)
                r = 'point' if res else 'none'
                if res:
                    points += 1
                    for v in res['cpu']:
                        if not (0 <= v <= 100): float_viol += 1
                    for d in (res['net_io'], res['disk_io']):
                        for vs in d.values():
                            for v in vs:
                                if not (math.isfinite(v) and v >= 0): float_viol += 1
            except IndexError: r = 'IndexError'
            out.append(obs(h, r))
    r = subprocess.run(['lake', 'env', 'lean', '--run', 'Driver7.lean'], cwd='/tmp/leanprobe/Probe', input='\n'.join(lines) + '\n', capture_output=True, text=True)
    model = r.stdout.strip().split('\n')
    assert len(model) == len(lines), (len(model), len(lines), r.stderr[:300])
    bad = [k for k in range(len(lines)) if model[k] != out[k]]
    print(f"cases={ncases} lines={len(lines)} points={points} disagreements={len(bad)} float monitor violations={float_viol}")
    for k in bad[:4]: print('  ', lines[k], '\n     impl ', out[k], '\n     model', model[k])
if __name__ == '__main__': main(int(sys.argv[1]), int(sys.argv[2]))
