import Probe.Rules
open R

theorem loadIdentifiers_frame (d : Doc) (v : Option String) (r : Rules) :
    (loadIdentifiers d v r).load = r.load ∧ (loadIdentifiers d v r).startSeq = r.startSeq ∧
    (loadIdentifiers d v r).stopSeq = r.stopSeq ∧ (loadIdentifiers d v r).required = r.required := by
  unfold loadIdentifiers
  cases v with
  | none => simp
  | some s =>
    simp only []
    split
    · simp
    · repeat' split
      all_goals simp

theorem ldStart_load (e : Elt) (r : Rules) : (ldStart e r).load = r.load := by
  unfold ldStart; split <;> (try split) <;> rfl
theorem ldStop_load (e : Elt) (r : Rules) : (ldStop e r).load = r.load := by
  unfold ldStop; split <;> (try split) <;> rfl
theorem ldRequired_load (e : Elt) (r : Rules) : (ldRequired e r).load = r.load := by
  unfold ldRequired; split <;> (try split) <;> rfl
theorem ldWaitExit_load (e : Elt) (r : Rules) : (ldWaitExit e r).load = r.load := by
  unfold ldWaitExit; split <;> (try split) <;> rfl
theorem ldSfs_load (e : Elt) (r : Rules) : (ldSfs e r).load = r.load := by
  unfold ldSfs; split <;> (try split) <;> rfl
theorem ldRfs_load (e : Elt) (r : Rules) : (ldRfs e r).load = r.load := by
  unfold ldRfs; split <;> (try split) <;> rfl
theorem ldLoading_load (e : Elt) (r : Rules) (h : r.load ≤ 100) : (ldLoading e r).load ≤ 100 := by
  unfold ldLoading
  repeat' split
  all_goals simp_all
  all_goals omega

theorem loadElt_load (d : Doc) (e : Elt) (r : Rules) (h : r.load ≤ 100) : (loadElt d e r).load ≤ 100 := by
  unfold loadElt
  rw [ldRfs_load, ldSfs_load]
  apply ldLoading_load
  rw [ldWaitExit_load, ldRequired_load, ldStop_load, ldStart_load, (loadIdentifiers_frame d e.identifiers r).1]
  exact h

theorem loadModelRules_load (d : Doc) (fuel : Nat) : ∀ (e : Elt) (r : Rules), r.load ≤ 100 → (loadModelRules d fuel e r).load ≤ 100 := by
  induction fuel with
  | zero => intro e r h; simpa [loadModelRules] using h
  | succ n ih =>
    intro e r h
    unfold loadModelRules
    apply loadElt_load
    split
    · exact ih _ _ h
    · exact h

theorem checkDependencies_load (r : Rules) (p : Bool) : (checkDependencies r p).load = r.load := by
  unfold checkDependencies
  simp only []
  repeat' split
  all_goals simp

/-- **C18 (in-domain, expected_loading)**: for every document — overlapping patterns, model chains and cycles
    included — and every name, the resolved expected load is in [0, 100] -/
theorem C18_load_in_domain (d : Doc) (app proc : String) : (loadProgramRules d app proc {}).load ≤ 100 := by
  unfold loadProgramRules
  rw [checkDependencies_load]
  split
  · rename_i e _ _
    exact loadModelRules_load d 3 _ _ (by decide)
  · decide

/-- **C18 (dependencies)**: `required` never survives without a start sequence, and the stop sequence is never negative -/
theorem C18_dependencies (r : Rules) (p : Bool) :
    ((checkDependencies r p).required = true → (checkDependencies r p).startSeq ≠ 0) ∧ 0 ≤ (checkDependencies r p).stopSeq := by
  unfold checkDependencies
  simp only []
  repeat' split
  all_goals simp_all
  all_goals omega
