""" Spike: C17 gating matrix on a real RPCInterface (state forced here; the real check reaches each state by a history). """
import sys, os
sys.path.insert(0, os.path.dirname(os.path.abspath(__file__)))
import lockstep as L
from lockstep import Sim, Net, T, UNIT
from supvisors.ttypes import *
from supervisor.xmlrpc import RPCError, Faults
import corr_cmd
FAULT = {v: k for k, v in vars(Faults).items() if isinstance(v, int)}
FAULT.update({f.value: f.name for f in SupvisorsFaults})
c = corr_cmd.Case(3)          # a real instance with applications/processes loaded
s = c.s
s.options.synchro_options = [SynchronizationOptions.USER]
app = next(iter(s.context.applications))
proc = app + ':' + next(iter(s.context.applications[app].processes))
CALLS = {
 'get_all_applications_info': (), 'get_application_info': (app,), 'get_application_rules': (app,), 'get_all_process_info': (),
 'get_process_info': (proc,), 'get_process_rules': (proc,), 'get_conflicts': (),
 'start_application': ('CONFIG', app, False), 'test_start_application': ('CONFIG', app), 'stop_application': (app, False),
 'restart_application': ('CONFIG', app, False), 'start_process': ('CONFIG', proc, '', False), 'test_start_process': ('CONFIG', proc),
 'start_any_process': ('CONFIG', '.*', '', False), 'stop_process': (proc, False), 'restart_process': ('CONFIG', proc, '', False),
 'update_numprocs': ('prog', 2, False), 'enable': ('prog', False), 'disable': ('prog', False), 'conciliate': ('USER',),
 'restart_sequence': (False,), 'restart': (), 'shutdown': (), 'end_sync': (),
}
s.server_options.program_configs = {}
print(f"{'method':28s}" + ' '.join(f'{st.name[:5]:>5s}' for st in SupvisorsStates))
for name, args in CALLS.items():
    row = []
    for st in SupvisorsStates:
        s.state_modes.local_state_modes.state = st
        s.state_modes.local_state_modes.master_identifier = ''     # non-Master without Master: worst case for restart/shutdown
        before = (len(c.emitted), s.starter.in_progress(), s.stopper.in_progress())
        try:
            getattr(s.rpc, name)(*args); r = 'ok'
        except RPCError as e: r = FAULT.get(e.code, str(e.code))[:5]
        except Exception as e: r = '!' + type(e).__name__[:4]
        if r == 'BAD_S' : r = '  .  '
        s.starter.abort(); s.stopper.abort(); c.emitted = []
        row.append(r)
    print(f"{name:28s}" + ' '.join(f'{x:>5s}' for x in row))
