/-! Spike: `HostStatisticsInstance` (statscompiler.py) over exact arithmetic, import-free. Namespace `S`. -/
namespace S

abbrev Q := Int × Int          -- a fraction num / den (den > 0), never normalised

structure Sample where
  now : Int
  cpu : List (Int × Int)                 -- (work, idle) per core (average first)
  mem : Int
  net : List (Nat × Int × Int)           -- insertion-ordered dict interface -> (recv, sent)
  disk : List (Nat × Int × Int)
  usage : List (Nat × Int)
  deriving Repr, Inhabited

structure Timed where
  key : Nat
  uptimes : List Int
  vals : List (List Q)
  deriving Repr, Inhabited

structure Host where
  period : Int
  depth : Nat
  ref : Option Sample := none
  refStart : Int := 0
  times : List Int := []
  cpu : List (List Q) := []
  mem : List Int := []
  net : List Timed := []
  disk : List Timed := []
  usage : List Timed := []
  deriving Repr, Inhabited

/-- `trunc_depth` -/
def trunc {α} (depth : Nat) (l : List α) : List α := l.drop (l.length - depth)

/-- `cpu_statistics` -/
def cpuStats (latest ref : List (Int × Int)) : List Q :=
  (latest.zip ref).map fun ((lw, li), (rw, ri)) =>
    let work := lw - rw; let total := work + (li - ri)
    if total = 0 then (0, 1) else (100 * work, total)

/-- `io_statistics` -/
def ioStats (last ref : List (Nat × Int × Int)) (duration : Int) : List (Nat × List Q) :=
  last.filterMap fun (k, lin, lout) =>
    match ref.find? (·.1 = k) with
    | some (_, rin, rout) =>
      if rin ≤ lin ∧ rout ≤ lout then some (k, [(lin - rin, duration * 128), (lout - rout, duration * 128)]) else none
    | none => none

/-- `_push_timed_stats` -/
def pushTimed (depth : Nat) (ref : List Timed) (stats : List (Nat × List Q)) (uptime : Int) : List Timed :=
  let kept := ref.filterMap fun t =>
    match stats.find? (·.1 = t.key) with
    | some (_, vs) => some { t with uptimes := trunc depth (t.uptimes ++ [uptime]),
                                    vals := (t.vals.zip vs).map (fun (l, v) => trunc depth (l ++ [v])) }
    | none => none
  let fresh := (stats.filter (fun kv => !ref.any (·.key = kv.1))).map fun (k, vs) =>
    ({ key := k, uptimes := [uptime], vals := vs.map (fun v => [v]) } : Timed)
  kept ++ fresh

inductive Res | none | point | indexError deriving Repr, DecidableEq

/-- `HostStatisticsInstance.push_statistics` -/
def push (h : Host) (s : Sample) : Host × Res :=
  match h.ref with
  | none =>
    ({ h with ref := some s, refStart := s.now, cpu := s.cpu.map (fun _ => []),
              net := s.net.map (fun kv => { key := kv.1, uptimes := [], vals := [[], []] }),
              disk := s.disk.map (fun kv => { key := kv.1, uptimes := [], vals := [[], []] }),
              usage := s.usage.map (fun kv => { key := kv.1, uptimes := [], vals := [[]] }) }, .none)
  | some r =>
    if s.now - r.now ≥ h.period then
      let duration := s.now - r.now
      let uptime := s.now - h.refStart
      let cpu := cpuStats s.cpu r.cpu
      if cpu.length < h.cpu.length then
        -- `lst.append(cpu_stats.pop(0))` on an exhausted list: IndexError after `times` was already pushed
        ({ h with times := trunc h.depth (h.times ++ [uptime]) }, .indexError)
      else
        ({ h with times := trunc h.depth (h.times ++ [uptime]),
                  cpu := (h.cpu.zip cpu).map (fun (l, v) => trunc h.depth (l ++ [v])),
                  mem := trunc h.depth (h.mem ++ [s.mem]),
                  net := pushTimed h.depth h.net (ioStats s.net r.net duration) uptime,
                  disk := pushTimed h.depth h.disk (ioStats s.disk r.disk duration) uptime,
                  usage := pushTimed h.depth h.usage (s.usage.map (fun kv => (kv.1, [(kv.2, 1)]))) uptime,
                  ref := some s }, .point)
    else (h, .none)

end S
