import Probe.Inst2

def parseNatList (s : String) : List Nat :=
  if s == "-" then [] else (s.splitOn ",").filterMap (·.toNat?)

def parseOptNat (s : String) : Option Nat := if s == "-" then none else s.toNat?

def showOut : Out → String
  | .pub => "pub" | .check j => s!"check{j}" | .restartLocal => "restartLocal" | .shutdownLocal => "shutdownLocal"
  | .restartAll m => s!"restartAll{m}" | .shutdownAll m => s!"shutdownAll{m}" | .refused a b => s!"refused{a.code}>{b.code}"

def showErr : Option Err → String
  | none => "ok"
  | some (.invalidTransition j a b) => s!"InvalidTransition:{j}:{a.code}>{b.code}"
  | some .noMaster => "NoMaster"

def obs (c : Cfg) (s : St) (e : Option Err) : String :=
  let lm := s.modes.getD c.me {}
  let master := match lm.master with | none => "-" | some m => toString m
  let inst := String.intercalate "," (lm.inst.map (fun x => toString x.code))
  let outs := String.intercalate "," (s.out.map showOut)
  s!"fsm={lm.fsm.code} master={master} inst={inst} deg={lm.degraded} out=[{outs}] {showErr e}"

def b (s : String) : Bool := s == "1"

structure D where
  cfg : Cfg := default
  st : St := default

def stepLine (d : D) (line : String) : D × String :=
  match (line.trimAscii.toString.splitOn " ") with
  | ["cfg", n, me, nick, core, initial, oS, oL, oT, oC, oU, sto, inact, fence, fs, now] =>
    let c : Cfg := { n := n.toNat!, me := me.toNat!, nickRank := parseNatList nick, core := parseNatList core,
                     initial := parseNatList initial, optStrict := b oS, optList := b oL, optTimeout := b oT,
                     optCore := b oC, optUser := b oU, syncTimeout := sto.toNat!, syncMin := 15 * 1024,
                     inactivity := inact.toNat!, autoFence := b fence,
                     failStrat := if fs == "RESYNC" then .resync else if fs == "SHUTDOWN" then .shutdown else .cont }
    let s := { initSt c with startDate := now.toNat!, now := now.toNat! }
    ({ cfg := c, st := s }, "ok")
  | "op" :: now :: rest =>
    let now := now.toNat!
    let op : Option Op := match rest with
      | ["running"] => some .running
      | ["ltick", k] => some (.ltick k.toNat!)
      | ["rtick", j, k] => some (.rtick j.toNat! k.toNat!)
      | ["state", j, f, dg, m, inst] =>
        some (.state j.toNat! { fsm := SState.ofCode f.toNat!, degraded := b dg, master := parseOptNat m,
                                inst := (parseNatList inst).map IState.ofCode })
      | ["auth", j, code, ts] => some (.auth j.toNat! code.toNat! ts.toNat!)
      | ["allinfonone", j] => some (.allinfoNone j.toNat!)
      | ["failure", j] => some (.failure j.toNat!)
      | ["restart"] => some .restart
      | ["shutdown"] => some .shutdown
      | ["endsync", m] => some (.endSync (parseOptNat m))
      | _ => none
    match op with
    | none => (d, "bad-op")
    | some op =>
      let (s', e) := stepOp d.cfg d.st now op
      ({ d with st := s' }, obs d.cfg s' e)
  | _ => (d, "bad-op")

partial def loop (h : IO.FS.Stream) (out : IO.FS.Stream) (d : D) : IO Unit := do
  let line ← h.getLine
  if line.isEmpty then return ()
  let (d', o) := stepLine d line
  out.putStrLn o
  loop h out d'

def main : IO Unit := do loop (← IO.getStdin) (← IO.getStdout) {}
