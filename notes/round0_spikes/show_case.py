import sys, traceback
sys.path.insert(0, __import__('os').path.dirname(__import__('os').path.abspath(__file__)))
import corr_cmd2
from corr_cmd2 import Case
c = Case(int(sys.argv[1]))
try: c.run()
except Exception as e:
    traceback.print_exc(limit=-14)
for l in c.lines:
    if not l.startswith('op') or ' info ' not in l: print(l)
