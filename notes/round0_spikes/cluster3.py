""" Spike: H3 with processes — N real instances, a fake Supervisor per instance, a real Parser on a generated rules file,
    bounded-delay scheduler, faults, user actions; property judges at quiescence (search on the real code, no Lean here). """
import sys, os, json, random, shutil, tempfile, traceback
sys.path.insert(0, os.path.dirname(os.path.abspath(__file__)))
import lockstep as L
from lockstep import Sim, Net, T, UNIT, FakeServerProxy
from supvisors.ttypes import *
from supvisors.sparser import Parser
from supervisor.states import ProcessStates, RUNNING_STATES, STOPPED_STATES
from supervisor.xmlrpc import RPCError, Faults
from supervisor.compat import xmlrpclib

SNAME = {0: 'STOPPED', 10: 'STARTING', 20: 'RUNNING', 30: 'BACKOFF', 40: 'STOPPING', 100: 'EXITED', 200: 'FATAL', 1000: 'UNKNOWN'}


class FakeSup:
    """ process table of one Supervisor """
    def __init__(self, sim, programs, rnd):
        self.sim, self.rnd = sim, rnd
        self.procs = {ns: dict(cfg, state=0, start=0, stop=0, pid=0, spawnerr='', expected=True) for ns, cfg in programs.items()}
        self.pending = []   # (time, namespec, state, expected)
        self.pid = 1000

    def info(self, ns):
        p = self.procs[ns]; group, name = ns.split(':')
        now = T[0] / UNIT
        return {'group': group, 'name': name, 'state': p['state'], 'statename': SNAME[p['state']], 'start': p['start'], 'stop': p['stop'],
                'now': int(1e6 + now), 'pid': p['pid'], 'description': '', 'spawnerr': p['spawnerr'], 'expected': not p['spawnerr'],
                'startsecs': p['startsecs'], 'stopwaitsecs': p['stopwaitsecs'], 'extra_args': '', 'disabled': False,
                'now_monotonic': now, 'start_monotonic': float(p['start']), 'stop_monotonic': float(p['stop']),
                'program_name': name, 'process_index': 0, 'has_stdout': False, 'has_stderr': False}

    def all_info(self): return [self.info(ns) for ns in self.procs]

    def emit(self, ns, state, expected=True):
        p = self.procs[ns]; group, name = ns.split(':')
        p['state'] = state
        now = T[0] / UNIT
        if state in (10, 30): p['start'] = int(now)
        if state in (0, 100): p['stop'] = int(now)
        p['pid'] = 0 if state in STOPPED_STATES else (p['pid'] or self._newpid())
        s = self.sim
        payload = {'identifier': s.identifier, 'nick_identifier': s.mapper.local_nick_identifier, 'name': name, 'group': group, 'state': state,
                   'now': 1e6 + now, 'now_monotonic': now, 'pid': p['pid'], 'expected': expected, 'spawnerr': '' if expected else 'boom',
                   'extra_args': '', 'disabled': False}
        try:
            s.fsm.on_process_state_event(s.context.local_status, payload)
            s.rpc_handler.send_process_state_event(payload)
        except Exception:
            s.logger.crit.append('on_process_state: ' + traceback.format_exc())

    def _newpid(self): self.pid += 1; return self.pid

    def start(self, ns):
        if ns not in self.procs: raise xmlrpclib.Fault(Faults.BAD_NAME, ns)
        p = self.procs[ns]
        if p['state'] not in STOPPED_STATES: raise xmlrpclib.Fault(Faults.ALREADY_STARTED, ns)
        beh = p['behaviour']; t = T[0]
        if beh == 'never': return True
        self.emit(ns, 10)
        d = p['startsecs'] * UNIT
        if beh == 'ok': self.pending.append((t + d, ns, 20, True))
        elif beh == 'fatal':
            self.pending += [(t + UNIT, ns, 30, False), (t + 2 * UNIT, ns, 10, True), (t + 3 * UNIT, ns, 30, False), (t + 4 * UNIT, ns, 200, False)]
        elif beh == 'exit': self.pending += [(t + d, ns, 20, True), (t + d + 2 * UNIT, ns, 100, self.rnd.random() < 0.5)]
        elif beh == 'stuck': pass
        return True

    def stop(self, ns):
        if ns not in self.procs: raise xmlrpclib.Fault(Faults.BAD_NAME, ns)
        p = self.procs[ns]
        if p['state'] in STOPPED_STATES: raise xmlrpclib.Fault(Faults.NOT_RUNNING, ns)
        self.pending = [x for x in self.pending if x[1] != ns]
        self.emit(ns, 40)
        if p['stopbeh'] != 'never': self.pending.append((T[0] + self.rnd.randint(1, p['stopwaitsecs'] * UNIT), ns, 0, True))
        return True

    def step(self):
        due = [x for x in self.pending if x[0] <= T[0]]
        for x in sorted(due):
            self.pending.remove(x)
            if self.procs[x[1]]['state'] not in STOPPED_STATES or x[2] in (10,):
                self.emit(x[1], x[2], x[3])


def patched_supvisors(self, name, *args):
    self._check(); tgt = self.net.instances[self.dst]
    if name == 'start_args': return tgt.fake.start(args[0])
    if name in ('restart', 'shutdown'): tgt.rpc_call(name); return True
    return json.loads(json.dumps(getattr(tgt.rpc, name)(*args)))
def patched_supervisor(self, name, *args):
    self._check(); tgt = self.net.instances[self.dst]
    if name == 'sendRemoteCommEvent': tgt.inbox.append((args[0], args[1])); return True
    if name == 'stopProcess': return tgt.fake.stop(args[0])
    if name in ('restart', 'shutdown'): tgt.orders.append(name); return True
    raise NotImplementedError(name)
FakeServerProxy._supvisors = patched_supvisors
FakeServerProxy._supervisor = patched_supervisor


def gen_rules(rnd, n, workdir):
    apps = {}
    xml = ['<?xml version="1.0" encoding="UTF-8" standalone="no"?>', '<root>']
    for a in range(rnd.randint(1, 3)):
        aname = f'app{a}'
        managed = rnd.random() < 0.85
        progs = {}
        for k in range(rnd.randint(1, 3)):
            progs[f'p{k}'] = dict(seq=rnd.choice([0, 1, 1, 2]), required=rnd.random() < 0.5, load=rnd.choice([0, 10, 30, 50]),
                                  rfs=rnd.choice(list(RunningFailureStrategies)[:4]), sfs=rnd.choice(list(StartingFailureStrategies)),
                                  startsecs=rnd.choice([1, 5]), stopwaitsecs=rnd.choice([2, 5]),
                                  behaviour=rnd.choice(['ok', 'ok', 'ok', 'ok', 'fatal', 'exit', 'never', 'stuck']),
                                  stopbeh=rnd.choice(['ok', 'ok', 'ok', 'never']),
                                  known=[i for i in range(n) if rnd.random() < 0.85] or [0])
        apps[aname] = dict(managed=managed, progs=progs)
        if managed:
            xml.append(f'<application name="{aname}"><start_sequence>{rnd.randint(0, 2)}</start_sequence>'
                       f'<starting_strategy>{rnd.choice(list(StartingStrategies)).name}</starting_strategy><programs>')
            for pn, c in progs.items():
                xml.append(f'<program name="{pn}"><start_sequence>{c["seq"]}</start_sequence><required>{str(c["required"] and c["seq"] > 0).lower()}</required>'
                           f'<expected_loading>{c["load"]}</expected_loading><running_failure_strategy>{c["rfs"].name}</running_failure_strategy>'
                           f'<starting_failure_strategy>{c["sfs"].name}</starting_failure_strategy></program>')
            xml.append('</programs></application>')
    xml.append('</root>')
    path = os.path.join(workdir, 'rules.xml')
    open(path, 'w').write('\n'.join(xml))
    return apps, path


def run_case(seed, verbose=False):
    rnd = random.Random(seed)
    n = rnd.randint(2, 4)
    workdir = tempfile.mkdtemp(prefix='supv-h3-', dir='/var/tmp')
    try:
        apps, rules_path = gen_rules(rnd, n, workdir)
        conc = rnd.choice(list(ConciliationStrategies))
        opts = {'synchro_timeout': '15', 'inactivity_ticks': '2', 'core_identifiers': '', 'auto_fence': rnd.choice(['false', 'true']),
                'starting_strategy': rnd.choice(list(StartingStrategies)).name, 'conciliation_strategy': conc.name, 'stats_enabled': 'false',
                'synchro_options': rnd.choice(['LIST', 'STRICT', 'TIMEOUT']), 'supvisors_list': ','.join(f'10.0.0.{i}' for i in range(1, n + 1))}
        T[0] = 10 * UNIT
        net = Net(); sims = []
        for k in range(1, n + 1):
            s = Sim(net, k, n, dict(opts))
            s.options.rules_files = [rules_path]; s.parser = Parser(s)
            programs = {f'{an}:{pn}': c for an, a in apps.items() for pn, c in a['progs'].items() if (k - 1) in c['known']}
            s.fake = FakeSup(s, programs, rnd)
            s.rpc.get_all_local_process_info = s.fake.all_info
            s.supervisor_data.update_extra_args = lambda ns, args, s=s: (_ for _ in ()).throw(KeyError(ns)) if ns not in s.fake.procs else None
            s.supervisor_data.autorestart = lambda ns, s=s: (_ for _ in ()).throw(KeyError(ns)) if ns not in s.fake.procs else False
            s.supervisor_data.disable_autorestart = lambda ns: None
            s.crit_all = []
            sims.append(s)
        period = 5 * UNIT
        next_tick = {s.k: T[0] + rnd.randint(1, period) for s in sims}
        started = set(); held = {}
        end_faults = T[0] + rnd.randint(15, 35) * period
        end = end_faults + 16 * period
        nact = rnd.randint(0, 8)
        act_times = sorted(rnd.randint(T[0] + 5 * period, end_faults) for _ in range(nact))
        log = []
        while T[0] < end:
            T[0] += rnd.randint(1, 40)
            while act_times and act_times[0] <= T[0]:
                act_times.pop(0)
                kind = rnd.choice(['crash', 'cut', 'heal', 'hold', 'direct_start', 'direct_start', 'rpc_start', 'rpc_stop', 'rpc_restart', 'direct_stop'])
                s = rnd.choice([x for x in sims if x.identifier not in net.down])
                log.append((T[0], kind, s.k))
                try:
                    if kind == 'crash' and len(net.down) < n - 1: net.down.add(s.identifier)
                    elif kind == 'cut':
                        o = rnd.choice([x for x in sims if x is not s]); net.cut.add(frozenset((s.identifier, o.identifier)))
                    elif kind == 'heal': net.cut.clear()
                    elif kind == 'hold':
                        o = rnd.choice([x for x in sims if x is not s]); held[(s.k, o.identifier)] = T[0] + rnd.randint(period // 4, period)
                    elif kind == 'direct_start' and s.fake.procs:
                        ns = rnd.choice(list(s.fake.procs))
                        if s.fake.procs[ns]['state'] in STOPPED_STATES: s.fake.start(ns)
                    elif kind == 'direct_stop' and s.fake.procs:
                        ns = rnd.choice(list(s.fake.procs))
                        if s.fake.procs[ns]['state'] not in STOPPED_STATES: s.fake.stop(ns)
                    elif kind.startswith('rpc_'):
                        an = rnd.choice(list(apps))
                        strat = rnd.choice(list(StartingStrategies)).name
                        try:
                            if kind == 'rpc_start': s.rpc.start_application(strat, an, False)
                            elif kind == 'rpc_stop': s.rpc.stop_application(an, False)
                            else: s.rpc.restart_application(strat, an, False)
                        except RPCError: pass
                except Exception:
                    s.logger.crit.append('user action: ' + traceback.format_exc())
            for s in sims:
                if s.identifier in net.down: continue
                s.fake.step()
                if next_tick[s.k] <= T[0]:
                    if s.k not in started: started.add(s.k); s.on_running()
                    s.tick(); next_tick[s.k] += period
            acts = []
            for s in sims:
                if s.identifier in net.down: continue
                if s.inbox: acts.append(('deliver', s))
                for ident, p in s.proxies_with_work():
                    if held.get((s.k, ident), 0) > T[0]: continue
                    acts.append(('proxy', s, p))
            if acts:
                a = rnd.choice(acts)
                try:
                    if a[0] == 'deliver': a[1].deliver()
                    else: a[2].step()
                except Exception:
                    a[1].logger.crit.append('scheduler: ' + traceback.format_exc())
            for s in sims:
                s.crit_all += [c for c in s.logger.crit if 'Traceback' in c]; s.logger.crit = [c for c in s.logger.crit if 'Traceback' not in c and 'unexpected' in c]
                s.refused = getattr(s, 'refused', []) + s.logger.crit; s.logger.crit = []
        return judge(sims, net, conc, apps, log, opts)
    finally:
        shutil.rmtree(workdir, ignore_errors=True)


def judge(sims, net, conc, apps, log, opts):
    live = [s for s in sims if s.identifier not in net.down]
    findings = []
    # C16: tracebacks
    for s in sims:
        for c in s.crit_all:
            last = [l for l in c.strip().split('\n') if l.strip()][-1]
            where = [l.strip() for l in c.split('\n') if 'File "/repo' in l]
            findings.append(('C16', last.split(':')[0] + ' @ ' + (where[-1].split(', in ')[-1] if where else '?')))
    # connectivity: judge the rest only when everything live is mutually RUNNING and no cut remains
    connected = not net.cut and all(s.context.instances[o.identifier].state == SupvisorsInstanceStates.RUNNING for s in live for o in live)
    if connected:
        masters = {s.state_modes.master_identifier for s in live}
        states = {s.state_modes.state.name for s in live}
        if len(masters) != 1 or '' in masters: findings.append(('C01', f'masters={sorted(m[-7:-6] for m in masters)} states={sorted(states)}'))
        if not states <= {'OPERATION', 'CONCILIATION'} or len(states) > 1:
            if not states & {'RESTARTING', 'SHUTTING_DOWN', 'FINAL'}: findings.append(('C08', f'states={sorted(states)}'))
        if any(s.starter.in_progress() or s.stopper.in_progress() for s in live): findings.append(('C10', 'jobs still in progress'))
        # C12: views vs truth
        for s in live:
            for an, app in s.context.applications.items():
                for pn, p in app.processes.items():
                    ns = f'{an}:{pn}'
                    truth = sorted(o.identifier for o in live if ns in o.fake.procs and o.fake.procs[ns]['state'] in (10, 20, 30, 40))
                    view = sorted(p.running_identifiers)
                    truth_r = sorted(o.identifier for o in live if ns in o.fake.procs and o.fake.procs[ns]['state'] in (10, 20, 30))
                    if not (set(truth_r) <= set(view) <= set(truth)): findings.append(('C12', 'view != truth'))
        # C05: conflicts left with a non-USER strategy
        if conc != ConciliationStrategies.USER and states <= {'OPERATION'}:
            for s in live:
                if s.state_modes.is_master() and s.context.conflicting(): findings.append(('C05', f'conflict left in OPERATION with {conc.name}'))
    return findings, connected


if __name__ == '__main__':
    s0, s1 = int(sys.argv[1]), int(sys.argv[2])
    agg = {}; nconn = 0
    for seed in range(s0, s1):
        try:
            f, connected = run_case(seed)
        except Exception as e:
            f, connected = [('HARNESS', traceback.format_exc().strip().split('\n')[-1])], False
        nconn += connected
        for sig in set(f): agg.setdefault(sig, []).append(seed)
    print(f'seeds {s0}..{s1 - 1}: connected-at-end={nconn}')
    for sig, seeds in sorted(agg.items(), key=lambda x: -len(x[1])):
        print(f'  {len(seeds):4d}  {sig[0]}  {sig[1]}   seeds {seeds[:8]}')
