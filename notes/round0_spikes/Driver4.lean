import Probe.Formula
open F

/-- tokens of the S-expression: "(" ")" atoms -/
def tokenize (s : String) : List String :=
  ((s.replace "(" " ( ").replace ")" " ) ").splitOn " " |>.filter (· ≠ "")

mutual
partial def parseF : List String → Option (Formula × List String)
  | "(" :: "S" :: k :: ")" :: r => some (.str k.toNat!, r)
  | "(" :: "C" :: ")" :: r => some (.const, r)
  | "(" :: "OTHER" :: ")" :: r => some (.other, r)
  | "(" :: "NOT" :: r => do let (x, r) ← parseF r; match r with | ")" :: r => some (.notOp x, r) | _ => none
  | "(" :: "UOTHER" :: r => do let (x, r) ← parseF r; match r with | ")" :: r => some (.unaryOther x, r) | _ => none
  | "(" :: "AND" :: r => do let (xs, r) ← parseL r; some (.andOp xs, r)
  | "(" :: "OR" :: r => do let (xs, r) ← parseL r; some (.orOp xs, r)
  | "(" :: "CALL" :: fn :: nkw :: r => do let (xs, r) ← parseL r; some (.call fn.toNat! xs nkw.toNat!, r)
  | _ => none
partial def parseL : List String → Option (List Formula × List String)
  | ")" :: r => some ([], r)
  | toks => do let (x, r) ← parseF toks; let (xs, r) ← parseL r; some (x :: xs, r)
end

def parseNatList (s : String) : List Nat := if s == "-" then [] else (s.splitOn ",").filterMap (·.toNat?)

def showOutcome : Outcome → String
  | .ignored => "ignored"
  | .major x => s!"major={x}"
  | .internal .attribute => "internal:AttributeError"
  | .internal .index => "internal:IndexError"
  | .internal .regex => "internal:error"
  | .internal .parse => "internal:parse"

structure D where
  leaves : List Leaf := []
  status : List Bool := []

def stepLine (d : D) (line : String) : D × String :=
  let line := line.trimAscii.toString
  match line.splitOn " " with
  | ["status", s] => ({ leaves := [], status := (parseNatList s).map (· == 1) }, "ok")
  | ["leaf", "exact", p] => ({ d with leaves := d.leaves ++ [.exact p.toNat!] }, "ok")
  | ["leaf", "matches", ps] => ({ d with leaves := d.leaves ++ [.matches (parseNatList ps)] }, "ok")
  | ["leaf", "reerror"] => ({ d with leaves := d.leaves ++ [.reError] }, "ok")
  | ["top", "SYNTAX"] => (d, showOutcome (outcome d.leaves d.status .syntaxError))
  | ["top", "MULTI"] => (d, showOutcome (outcome d.leaves d.status .multi))
  | ["top", "NOTEXPR"] => (d, showOutcome (outcome d.leaves d.status .notExpr))
  | "top" :: "EXPR" :: rest =>
    match parseF (tokenize (String.intercalate " " rest)) with
    | some (f, []) => (d, showOutcome (outcome d.leaves d.status (.expr f)))
    | _ => (d, "bad-sexpr")
  | _ => (d, "bad-op")

partial def loop (h : IO.FS.Stream) (out : IO.FS.Stream) (d : D) : IO Unit := do
  let line ← h.getLine
  if line.isEmpty then return ()
  let (d', o) := stepLine d line
  out.putStrLn o
  loop h out d'

def main : IO Unit := do loop (← IO.getStdin) (← IO.getStdout) {}
