/-! Spike: `ApplicationStatus.evaluate` / `update_status_formula` (application.py), import-free. Namespace `F`. -/
namespace F

/-- the AST shapes that can reach the evaluator (printed by the harness from `ast.parse`) -/
inductive Formula where
  | str (leaf : Nat)                                   -- string constant; index in the leaf table
  | const                                              -- any other constant
  | call (fn : Nat) (args : List Formula) (nkw : Nat)  -- fn: 0 all, 1 any, 2 other Name, 3 callee is not a Name
  | andOp (vals : List Formula)
  | orOp (vals : List Formula)
  | notOp (x : Formula)
  | unaryOther (x : Formula)
  | other                                              -- every other expression node
  deriving Repr, Inhabited

/-- how a string leaf resolves against the application's process names -/
inductive Leaf where
  | exact (p : Nat)             -- the string is a process name
  | matches (ps : List Nat)     -- regex matches (possibly none)
  | reError                     -- `re.compile` raises
  deriving Repr, Inhabited

inductive Val where
  | b (x : Bool)
  | l (xs : List Bool)
  deriving Repr, DecidableEq

inductive Err where
  | parse                        -- ApplicationStatusParseError: handled, yields major failure
  | attribute | index | regex    -- AttributeError / IndexError / re.error: NOT handled by the real code
  deriving Repr, DecidableEq

/-- `evaluate` as the code is today -/
def evaluate (leaves : List Leaf) (status : List Bool) : (fuel : Nat) → Formula → Except Err Val
  | 0, _ => .error .parse
  | fuel + 1, f =>
    match f with
    | .str k =>
      match leaves.getD k (.matches []) with
      | .exact p => .ok (.b (status.getD p false))
      | .reError => .error .regex
      | .matches [p] => .ok (.b (status.getD p false))
      | .matches [] => .error .parse
      | .matches ps => .ok (.l (ps.map (fun p => status.getD p false)))
    | .call fn args _ =>
      if fn = 3 then .error .attribute
      else if fn = 2 then .error .parse
      else match args with
        | [] => .error .index
        | a :: _ =>
          match evaluate leaves status fuel a with
          | .error e => .error e
          | .ok v =>
            let xs := match v with | .b x => [x] | .l xs => xs
            .ok (.b (if fn = 0 then xs.all id else xs.any id))
    | .andOp vals => boolOp leaves status fuel true vals []
    | .orOp vals => boolOp leaves status fuel false vals []
    | .notOp x =>
      match evaluate leaves status fuel x with
      | .error e => .error e
      | .ok (.b v) => .ok (.b (!v))
      | .ok (.l _) => .error .parse
    | .unaryOther _ => .error .parse
    | .const => .error .parse
    | .other => .error .parse
where
  boolOp (leaves : List Leaf) (status : List Bool) (fuel : Nat) (isAnd : Bool) : List Formula → List Val → Except Err Val
    | [], acc =>
      if acc.any (fun v => match v with | .l _ => true | .b _ => false) then .error .parse
      else
        let bs := acc.map (fun v => match v with | .b x => x | .l _ => false)
        .ok (.b (if isAnd then bs.all id else bs.any id))
    | v :: t, acc =>
      match evaluate leaves status fuel v with
      | .error e => .error e
      | .ok r => boolOp leaves status fuel isAnd t (acc ++ [r])

inductive Top where
  | syntaxError | multi | notExpr | expr (f : Formula)
  deriving Repr, Inhabited

inductive Outcome where
  | ignored                -- formula not stored: required-based status applies
  | major (x : Bool)       -- major_failure set from the formula
  | internal (e : Err)     -- an exception escapes `ApplicationStatus.update`
  deriving Repr, DecidableEq

/-- status_formula setter + update_status_formula, as the code is today -/
def outcome (leaves : List Leaf) (status : List Bool) : Top → Outcome
  | .syntaxError => .ignored
  | .multi => .ignored
  | .notExpr => .internal .attribute            -- `tree.body[0].value` on a non-expression statement
  | .expr f =>
    match evaluate leaves status 1000 f with
    | .ok (.b x) => .major (!x)
    | .ok (.l _) => .major true
    | .error .parse => .major true
    | .error e => .internal e

/-- what C15 demands: never an internal error -/
def acceptable : Outcome → Bool
  | .internal _ => false
  | _ => true

/-- hostile shapes on which today's evaluator raises -/
def witness1 : Top := .expr (.call 3 [.str 0] 0)        -- os.system("x")
def witness2 : Top := .expr (.call 0 [] 0)              -- all()
def witness3 : Top := .notExpr                          -- import os
def witness4 : Top := .expr (.str 0)                    -- "(" with an invalid regex leaf

/-- C15 totality is refuted for the current code, with concrete witnesses -/
theorem C15_total_refuted :
    ¬ (∀ (leaves : List Leaf) (status : List Bool) (t : Top), acceptable (outcome leaves status t) = true) := by
  intro h
  have := h [.exact 0] [true] witness1
  simp [witness1, outcome, evaluate, acceptable] at this

example : outcome [] [] witness2 = .internal .index := by decide
example : outcome [] [] witness3 = .internal .attribute := by decide
example : outcome [.reError] [] witness4 = .internal .regex := by decide

end F
