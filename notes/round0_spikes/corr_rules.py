""" Spike: correspondence of the Lean rules model (Rules.lean) with the real Parser on generated rules files
    (lxml + XSD path, and ElementTree path with lxml blocked). """
import sys, os, re, random, subprocess, tempfile, shutil, warnings
warnings.filterwarnings('ignore')
from unittest.mock import Mock
from supvisors.sparser import Parser
from supvisors.process import ProcessRules

def hx(s): return s.encode().hex()
def opt(s): return '_' if s is None else '=' + hx(s)

APPS = ['web', 'web_1', 'db', 'batch']
PROCS = ['srv', 'srv_01', 'srv_02', 'worker', 'work_a', 'cron']
APP_PATTERNS = ['web', 'web_', 'b', 'db|batch', '.*', 'we.']
PRG_PATTERNS = ['srv', 'srv_', 'srv_0\\d', 'wor', 'work', '.', 'o', 'cron$']
SEQ_OK = ['0', '1', '2', '5', ' 3 ', '+4', '-1', '-7', '127']
SEQ_ANY = SEQ_OK + ['abc', '1_0', '', ' ', '3.5', '1e2']
BOOL_OK = ['true', 'false', '1', '0']
BOOL_ANY = BOOL_OK + ['yes', 'no', 'on', 'off', 'True', 'TRUE', ' true ', 'maybe', 'y', 't']
LOAD_OK = ['0', '10', '100', ' 50 ']
LOAD_ANY = LOAD_OK + ['101', '-5', 'x', '1_0']
SFS_OK = ['ABORT', 'STOP', 'CONTINUE']; SFS_ANY = SFS_OK + ['abort', 'RESTART', ' STOP']
RFS_OK = ['CONTINUE', 'RESTART_PROCESS', 'STOP_APPLICATION', 'RESTART_APPLICATION', 'SHUTDOWN', 'RESTART']; RFS_ANY = RFS_OK + ['restart', 'STOP']
IDS = ['*', 'n1', 'n1,n2', 'n2, n1 ,n1', '#', '@', '#,n1,n2', '@,n2', '#,@,n1', 'al1', 'al1,n3', 'al2', '*,n1', ' ', ',', 'n1,,n2', 'al1,al1']

def gen_elt(rnd, validated, kind, names):
    f = {}
    pick = lambda ok, anyv: rnd.choice(ok if validated else anyv)
    if rnd.random() < 0.4: f['reference'] = rnd.choice(['m1', 'm2', 'm3', 'nope'])
    if rnd.random() < 0.5: f['identifiers'] = rnd.choice(IDS)
    if rnd.random() < 0.6: f['start_sequence'] = pick(SEQ_OK, SEQ_ANY)
    if rnd.random() < 0.4: f['stop_sequence'] = pick(SEQ_OK, SEQ_ANY)
    if rnd.random() < 0.5: f['required'] = pick(BOOL_OK, BOOL_ANY)
    if rnd.random() < 0.3: f['wait_exit'] = pick(BOOL_OK, BOOL_ANY)
    if rnd.random() < 0.5: f['expected_loading'] = pick(LOAD_OK, LOAD_ANY)
    if rnd.random() < 0.4: f['starting_failure_strategy'] = pick(SFS_OK, SFS_ANY)
    if rnd.random() < 0.4: f['running_failure_strategy'] = pick(RFS_OK, RFS_ANY)
    return f

ORDER = ['reference', 'identifiers', 'start_sequence', 'stop_sequence', 'required', 'wait_exit', 'expected_loading',
         'starting_failure_strategy', 'running_failure_strategy']
def xml_elt(tag, attrs, f, rnd):
    keys = [k for k in ORDER if k in f]; rnd.shuffle(keys)
    a = ''.join(f' {k}="{v}"' for k, v in attrs.items() if v is not None)
    body = ''.join(f'<{k}>{f[k]}</{k}>' for k in keys)
    return f'<{tag}{a}>{body}</{tag}>'
def line_elt(kw, attrs, f):
    return ' '.join([kw, opt(attrs.get('name')), opt(attrs.get('pattern'))] + [opt(f.get(k)) for k in ORDER])

def run_case(rnd, workdir, validated):
    lines = ['doc']; xml = ['<?xml version="1.0" encoding="UTF-8" standalone="no"?>', '<root>']
    items = []
    for an, vals in (('al1', 'n1,n2'), ('al2', 'al1, n4')) if rnd.random() < 0.8 else ():
        items.append(('alias', an, vals))
    for mn in rnd.sample(['m1', 'm2', 'm3', 'm1'], rnd.randint(0, 4)):
        items.append(('model', mn, gen_elt(rnd, validated, 'model', None)))
    for _ in range(rnd.randint(1, 4)):
        attrs = {'name': rnd.choice(APPS)} if rnd.random() < 0.6 else {'pattern': rnd.choice(APP_PATTERNS)}
        progs = []
        for _ in range(rnd.randint(0, 4)):
            pa = {'name': rnd.choice(PROCS)} if rnd.random() < 0.5 else {'pattern': rnd.choice(PRG_PATTERNS)}
            progs.append((pa, gen_elt(rnd, validated, 'program', None)))
        items.append(('app', attrs, progs))
    rnd.shuffle(items)
    for it in items:
        if it[0] == 'alias':
            xml.append(f'<alias name="{it[1]}">{it[2]}</alias>')
            lines.append(f"alias {hx(it[1])} {','.join(hx(x.strip()) for x in it[2].split(','))}")
        elif it[0] == 'model':
            xml.append(xml_elt('model', {'name': it[1]}, it[2], rnd)); lines.append(line_elt('model', {'name': it[1]}, it[2]))
        else:
            _, attrs, progs = it
            a = ''.join(f' {k}="{v}"' for k, v in attrs.items())
            xml.append(f'<application{a}><programs>' + ''.join(xml_elt('program', pa, f, rnd) for pa, f in progs) + '</programs></application>')
            lines.append(f"app {opt(attrs.get('name'))} {opt(attrs.get('pattern'))}")
            for pa, f in progs: lines.append(line_elt('prog', pa, f))
    xml.append('</root>')
    path = os.path.join(workdir, 'rules.xml'); open(path, 'w', encoding='utf-8').write('\n'.join(xml))
    supv = Mock(); supv.logger = Mock(level=50); supv.options.rules_files = [path]
    supv.supervisor_data.autorestart = Mock(return_value=False)
    try: parser = Parser(supv)
    except Exception as e: return None, None, type(e).__name__
    # match table for every pattern x queried name
    pats_app = {a[1]['pattern'] for a in items if a[0] == 'app' and 'pattern' in a[1]}
    pats_prg = {pa['pattern'] for a in items if a[0] == 'app' for pa, _ in a[2] if 'pattern' in pa}
    for p in sorted(pats_app):
        for n in APPS:
            mo = re.search(f'({p})', n)
            if mo: lines.append(f"match {hx(p)} {hx(n)} {len(mo.group())}")
    for p in sorted(pats_prg):
        for n in PROCS:
            mo = re.search(f'({p})', n)
            if mo: lines.append(f"match {hx(p)} {hx(n)} {len(mo.group())}")
    obs = ['ok'] * len(lines)
    for an in APPS:
        for pn in PROCS:
            r = ProcessRules(supv)
            parser.load_program_rules(f'{an}:{pn}', r)
            lines.append(f"query {hx(an)} {hx(pn)}")
            ls = lambda l: '[' + ', '.join(l) + ']'
            obs.append(f"ids={ls(r.identifiers)} at={ls(r.at_identifiers)} hash={ls(r.hash_identifiers)} start={r.start_sequence} stop={r.stop_sequence}"
                       f" req={'true' if r.required else 'false'} wait={'true' if r.wait_exit else 'false'} load={r.expected_load}"
                       f" sfs={r.starting_failure_strategy.name} rfs={r.running_failure_strategy.name}")
    return lines, obs, None

def main(seed, ncases, validated):
    if not validated:
        sys.modules['lxml'] = None; sys.modules['lxml.etree'] = None      # force the ElementTree path
    rnd = random.Random(seed)
    workdir = tempfile.mkdtemp(prefix='supv-rules-', dir='/var/tmp')
    lines = []; obs = []; rejected = {}; bounds = []
    try:
        for c in range(ncases):
            l, o, err = run_case(rnd, workdir, validated)
            if err: rejected[err] = rejected.get(err, 0) + 1; continue
            bounds.append((len(lines), len(lines) + len(l))); lines += l; obs += o
    finally:
        shutil.rmtree(workdir, ignore_errors=True)
    r = subprocess.run(['lake', 'env', 'lean', '--run', 'Driver9.lean'], cwd='/tmp/leanprobe/Probe', input='\n'.join(lines) + '\n', capture_output=True, text=True)
    model = r.stdout.strip().split('\n')
    assert len(model) == len(lines), (len(model), len(lines), r.stderr[:300])
    nbad = 0
    for a, b in bounds:
        bad = [k for k in range(a, b) if model[k] != obs[k]]
        if bad:
            nbad += 1
            if nbad <= 3:
                k = bad[0]; print('--- first diff'); print('   ', bytes.fromhex(lines[k].split()[1]).decode(), bytes.fromhex(lines[k].split()[2]).decode()); print('    impl ', obs[k]); print('    model', model[k])
    nq = sum(1 for l in lines if l.startswith('query'))
    distinct = len({o for o in obs if o != 'ok'})
    print(f"path={'lxml+XSD' if validated else 'ElementTree'} docs={len(bounds)} rejected={rejected} queries={nq} distinct results={distinct} docs_with_diff={nbad}")

if __name__ == '__main__': main(int(sys.argv[1]), int(sys.argv[2]), sys.argv[3] == 'xsd')
