import Probe.Cmd1
open C1

/-- lexicographic order on keys -/
def lexLe (a b : Nat × Nat) : Prop := a.1 < b.1 ∨ (a.1 = b.1 ∧ a.2 ≤ b.2)

/-- C14 (LESS_LOADED family): the chosen element belongs to the valid list and no valid element has a strictly better key -/
theorem firstMin_optimal (key : Nat → Nat × Nat) (l : List Nat) (m : Nat) (h : firstMin key l = some m) :
    m ∈ l ∧ ∀ x ∈ l, lexLe (key m) (key x) := by
  induction l generalizing m with
  | nil => simp [firstMin] at h
  | cons a t ih =>
    simp only [firstMin] at h
    cases ht : firstMin key t with
    | none =>
      simp [ht] at h; subst h
      have : t = [] := by
        cases t with
        | nil => rfl
        | cons b u => simp only [firstMin] at ht; split at ht <;> (try split at ht) <;> simp at ht
      subst this
      exact ⟨by simp, by intro x hx; simp at hx; subst hx; unfold lexLe; omega⟩
    | some m' =>
      simp only [ht] at h
      obtain ⟨hm', hall⟩ := ih m' ht
      split at h
      · -- m' strictly better than a
        rename_i hlt
        simp at h; subst h
        refine ⟨by simp [hm'], ?_⟩
        intro x hx
        simp at hx
        cases hx with
        | inl hxa => subst hxa; unfold lexLe; omega
        | inr hxt => exact hall x hxt
      · rename_i hnlt
        simp at h; subst h
        refine ⟨by simp, ?_⟩
        intro x hx
        simp at hx
        cases hx with
        | inl hxa => subst hxa; unfold lexLe; omega
        | inr hxt =>
          have := hall x hxt
          unfold lexLe at *
          omega

theorem firstMin_none (key : Nat → Nat × Nat) (l : List Nat) : firstMin key l = none ↔ l = [] := by
  cases l with
  | nil => simp [firstMin]
  | cons a t => simp only [firstMin]; split <;> (try split) <;> simp

/-- C04 (cap) for the LESS_LOADED strategy of the model: whatever is chosen is a RUNNING candidate whose node stays ≤ 100 -/
theorem chooseInstance_lessLoaded_valid (w : W) (idents : List Nat) (load : Nat) (req : List (Nat × Nat)) (i : Nat)
    (h : chooseInstance w .lessLoaded idents load req = some i) :
    i ∈ idents ∧ w.instRunning.getD i false = true ∧
      nodeLoad w (w.node.getD i 0) + nodeReq w req (w.node.getD i 0) + load ≤ 100 := by
  unfold chooseInstance at h
  simp only [] at h
  split at h
  · simp at h
  · have := (firstMin_optimal _ _ _ h).1
    simp only [List.mem_filter, decide_eq_true_eq] at this
    exact ⟨this.1.1, this.1.2, this.2⟩
