""" Spike: reference grammars (to be ported to Lean) for Python's int(), float() on printable ASCII + whitespace,
    distutils strtobool and supervisor's list_of_strings / boolean / integer, checked against the real functions. """
import random, string, sys, warnings
warnings.filterwarnings('ignore')
from distutils.util import strtobool
from supervisor.datatypes import list_of_strings, boolean, integer

WS = ' \t\n\r\x0b\x0c\x1c\x1d\x1e\x1f'       # str.strip() whitespace within ASCII
def digits_us(s):
    """ digits with single underscores between digits """
    if not s or not s[0].isdigit() or not s[-1].isdigit(): return False
    prev_us = False
    for ch in s:
        if ch == '_':
            if prev_us: return False
            prev_us = True
        elif ch in '0123456789': prev_us = False
        else: return False
    return True
def ref_int(s):
    t = s.strip(WS)
    if t[:1] and t[:1] in '+-': sign, t = (-1 if t[0] == '-' else 1), t[1:]
    else: sign = 1
    if not digits_us(t): return None
    return sign * int(t.replace('_', ''))
def ref_float_kind(s):
    """ 'num' / 'nan' / 'inf' / None """
    t = s.strip(WS)
    if t[:1] and t[:1] in '+-': t = t[1:]
    low = t.lower()
    if low == 'nan': return 'nan'
    if low in ('inf', 'infinity'): return 'inf'
    # decimal: digits [. digits] [e[+-]digits] | . digits [...]
    mant, exp = low, None
    if 'e' in low:
        mant, exp = low.split('e', 1)
        if exp[:1] and exp[:1] in '+-': exp = exp[1:]
        if not digits_us(exp): return None
    if '.' in mant:
        a, b = mant.split('.', 1)
        if a == '' and b == '': return None
        if a and not digits_us(a): return None
        if b and not digits_us(b): return None
    else:
        if not digits_us(mant): return None
    return 'num'
def ref_strtobool(s):
    v = s.lower()
    if v in ('y', 'yes', 't', 'true', 'on', '1'): return 1
    if v in ('n', 'no', 'f', 'false', 'off', '0'): return 0
    return None

ALPH = string.digits * 4 + '+-_. \t\neEnaNfIiyt' + string.ascii_letters + ',;'
rnd = random.Random(int(sys.argv[1]))
bad = {'int': 0, 'float': 0, 'bool': 0}
N = int(sys.argv[2])
for _ in range(N):
    s = ''.join(rnd.choice(ALPH) for _ in range(rnd.randint(0, 7)))
    try: a = int(s)
    except ValueError: a = None
    if a != ref_int(s):
        bad['int'] += 1
        if bad['int'] < 5: print('int', repr(s), a, ref_int(s))
    try:
        f = float(s); k = 'nan' if f != f else ('inf' if f in (float('inf'), float('-inf')) and 'inf' in s.lower() else 'num')
    except ValueError: k = None
    if k != ref_float_kind(s):
        bad['float'] += 1
        if bad['float'] < 5: print('float', repr(s), k, ref_float_kind(s))
    try: b = strtobool(s)
    except ValueError: b = None
    if b != ref_strtobool(s):
        bad['bool'] += 1
        if bad['bool'] < 5: print('bool', repr(s), b, ref_strtobool(s))
print(N, 'strings; mismatches', bad)
print('list_of_strings examples:', list_of_strings(' a, b ,,c '), list_of_strings(''), list_of_strings('a b'))
