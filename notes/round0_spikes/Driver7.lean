import Probe.Stats
open S

def parseInts (s : String) : List Int := if s == "-" then [] else (s.splitOn ",").filterMap (·.toInt?)
def pairs (l : List Int) : List (Int × Int) := match l with | a :: b :: t => (a, b) :: pairs t | _ => []
def triples (l : List Int) : List (Nat × Int × Int) := match l with | k :: a :: b :: t => (k.toNat, a, b) :: triples t | _ => []
def kvs (l : List Int) : List (Nat × Int) := match l with | k :: a :: t => (k.toNat, a) :: kvs t | _ => []

def showTimed (ts : List Timed) : String :=
  String.intercalate ";" (ts.map fun t => s!"{t.key}:{t.uptimes.length}:{t.vals.map (·.length)}")

def obs (h : Host) (r : Res) : String :=
  let rs := match r with | .none => "none" | .point => "point" | .indexError => "IndexError"
  s!"{rs} times={h.times.length} cpu={h.cpu.map (·.length)} mem={h.mem.length} net={showTimed h.net} disk={showTimed h.disk} usage={showTimed h.usage}"

def stepLine (h : Host) (line : String) : Host × String :=
  match line.trimAscii.toString.splitOn " " with
  | ["new", period, depth] => ({ period := period.toInt!, depth := depth.toNat! }, "ok")
  | ["push", now, cpu, mem, net, disk, usage] =>
    let s : Sample := { now := now.toInt!, cpu := pairs (parseInts cpu), mem := mem.toInt!, net := triples (parseInts net),
                        disk := triples (parseInts disk), usage := kvs (parseInts usage) }
    let (h', r) := push h s
    (h', obs h' r)
  | _ => (h, "bad-op")

partial def loop (i : IO.FS.Stream) (o : IO.FS.Stream) (h : Host) : IO Unit := do
  let line ← i.getLine
  if line.isEmpty then return ()
  let (h', out) := stepLine h line
  o.putStrLn out
  loop i o h'

def main : IO Unit := do loop (← IO.getStdin) (← IO.getStdout) default
