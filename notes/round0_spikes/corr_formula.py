""" Spike: correspondence of the Lean formula evaluator (Formula.lean) with ApplicationStatus.update on the real code. """
import sys, ast, re, random, subprocess, warnings
warnings.filterwarnings('ignore')
from unittest.mock import Mock
from supvisors.application import ApplicationRules, ApplicationStatus
from supvisors.process import ProcessRules, ProcessStatus
from supvisors.ttypes import ApplicationStatusParseError
from supervisor.states import ProcessStates

NAMES = ['web', 'web_1', 'web_2', 'db', 'worker_a', 'worker_b']
LEAVES = NAMES + ['web.*', 'worker_.', 'db|web', 'nomatch', '.*', '(', '[', 'web_\\d', '']

def gen_expr(rnd, depth):
    r = rnd.random()
    if depth <= 0 or r < 0.3:
        return ast.Constant(rnd.choice(LEAVES)) if rnd.random() < 0.9 else ast.Constant(rnd.choice([1, True, None, 2.5]))
    if r < 0.5:
        fn = rnd.choice(['all', 'any', 'all', 'any', 'len', 'eval'])
        func = ast.Name(fn, ast.Load()) if rnd.random() < 0.85 else rnd.choice([
            ast.Attribute(ast.Name('os', ast.Load()), 'system', ast.Load()), ast.Lambda(ast.arguments([], [], None, [], [], None, []), ast.Constant(1)),
            ast.Constant('a')])
        nargs = rnd.choice([1, 1, 1, 0, 2])
        kws = [ast.keyword('x', ast.Constant('web'))] if rnd.random() < 0.1 else []
        return ast.Call(func, [gen_expr(rnd, depth - 1) for _ in range(nargs)], kws)
    if r < 0.75:
        return ast.BoolOp(rnd.choice([ast.And(), ast.Or()]), [gen_expr(rnd, depth - 1) for _ in range(rnd.randint(2, 3))])
    if r < 0.9:
        return ast.UnaryOp(ast.Not() if rnd.random() < 0.85 else ast.USub(), gen_expr(rnd, depth - 1))
    return rnd.choice([ast.Compare(ast.Constant('web'), [ast.Lt()], [ast.Constant('db')]), ast.Name('web', ast.Load()),
                       ast.IfExp(ast.Constant('web'), ast.Constant('db'), ast.Constant('web')), ast.List([ast.Constant('web')], ast.Load()),
                       ast.JoinedStr([ast.Constant('web')])])

def sexpr(node, leaves):
    if type(node) is ast.Constant and type(node.value) is str:
        if node.value not in leaves: leaves.append(node.value)
        return f"(S {leaves.index(node.value)})"
    if type(node) is ast.Constant: return "(C)"
    if type(node) is ast.Call:
        fn = 3
        if type(node.func) is ast.Name: fn = {'all': 0, 'any': 1}.get(node.func.id, 2)
        return f"(CALL {fn} {len(node.keywords)} {' '.join(sexpr(a, leaves) for a in node.args)})"
    if type(node) is ast.BoolOp:
        return f"({'AND' if type(node.op) is ast.And else 'OR'} {' '.join(sexpr(v, leaves) for v in node.values)})"
    if type(node) is ast.UnaryOp:
        return f"({'NOT' if type(node.op) is ast.Not else 'UOTHER'} {sexpr(node.operand, leaves)})"
    return "(OTHER)"

def leaf_line(leaf, procnames):
    if leaf in procnames: return f"leaf exact {procnames.index(leaf)}"
    try: pat = re.compile(r'^%s$' % leaf)
    except re.error: return "leaf reerror"
    ms = [i for i, n in enumerate(procnames) if pat.match(n)]
    return f"leaf matches {','.join(map(str, ms)) if ms else '-'}"

def main(seed, ncases):
    rnd = random.Random(seed)
    supv = Mock(); supv.logger = Mock(level=50)
    lines = []; obs = []; kinds = {}
    for c in range(ncases):
        k = rnd.randint(1, len(NAMES)); procnames = rnd.sample(NAMES, k)
        app = ApplicationStatus('app', ApplicationRules(supv), supv)
        status = []
        for n in procnames:
            p = ProcessStatus('app', n, ProcessRules(supv), supv)
            st = rnd.choice([ProcessStates.RUNNING, ProcessStates.STOPPED, ProcessStates.EXITED, ProcessStates.FATAL, ProcessStates.STARTING])
            p._state = st; p.expected_exit = rnd.random() < 0.5
            app.processes[n] = p
            status.append(int(st in (ProcessStates.RUNNING, ProcessStates.STARTING, ProcessStates.BACKOFF) or (st == ProcessStates.EXITED and p.expected_exit)))
        lines.append(f"status {','.join(map(str, status))}"); obs.append('ok')
        # formula text
        r = rnd.random()
        if r < 0.05: text = rnd.choice(['all(', '"a" and', ')', 'not', '"web" "db" +'])
        elif r < 0.08: text = rnd.choice(['"web"; "db"', '"web"\n"db"'])
        elif r < 0.12: text = rnd.choice(['import os', 'pass', 'x = "web"', 'del x', 'assert "web"'])
        else: text = ast.unparse(ast.fix_missing_locations(ast.Expression(gen_expr(rnd, rnd.randint(0, 4)))))
        # python side
        rules = ApplicationRules(supv)
        top = None
        try:
            rules.status_formula = text
        except ApplicationStatusParseError:
            try: n = len(ast.parse(text).body); top = 'MULTI'
            except SyntaxError: top = 'SYNTAX'
            out = 'ignored'
        else:
            app.rules = rules
            try:
                app.update(); out = f"major={'true' if app.major_failure else 'false'}"
            except Exception as e:
                out = f"internal:{type(e).__name__}"
            body = rules._status_tree.body[0]
            leaves = []
            if type(body) is ast.Expr: top = 'EXPR ' + sexpr(body.value, leaves)
            elif hasattr(body, 'value') and body.value is not None: top = 'EXPR ' + sexpr(body.value, leaves)   # x = "web": Assign has .value
            else: top = 'NOTEXPR'
            for lf in leaves: lines.append(leaf_line(lf, procnames)); obs.append('ok')
        lines.append(f"top {top}"); obs.append(out)
        kinds[out.split('=')[0]] = kinds.get(out.split('=')[0], 0) + 1
    r = subprocess.run(['lake', 'env', 'lean', '--run', 'Driver4.lean'], cwd='/tmp/leanprobe/Probe', input='\n'.join(lines) + '\n', capture_output=True, text=True)
    model = r.stdout.strip().split('\n')
    assert len(model) == len(lines), (len(model), len(lines), r.stderr[:400])
    bad = [k for k in range(len(lines)) if model[k] != obs[k]]
    print(f"cases={ncases} lines={len(lines)} disagreements={len(bad)} outcome kinds={kinds}")
    for k in bad[:6]:
        j = k
        while not lines[j].startswith('status'): j -= 1
        print('---'); [print('  ', lines[q], '| impl', obs[q], '| model', model[q]) for q in range(j, k + 1)]

if __name__ == '__main__':
    main(int(sys.argv[1]), int(sys.argv[2]))
