""" Spike: correspondence between the real ProcessStatus and the Lean Proc model over random histories. """
import sys, random, subprocess, warnings, time as _time
warnings.filterwarnings('ignore')
from unittest.mock import Mock, patch
CLOCK=[0]
def now():
    CLOCK[0]+=1; return float(CLOCK[0])
patch('time.monotonic', side_effect=now).start()
from supvisors.process import ProcessStatus, ProcessRules
STATES=[0,10,20,30,40,100,200,1000]
NAMES={0:'STOPPED',10:'STARTING',20:'RUNNING',30:'BACKOFF',40:'STOPPING',100:'EXITED',200:'FATAL',1000:'UNKNOWN'}
def supv():
    s=Mock(); s.logger=Mock(level=50); s.supervisor_data.update_extra_args=Mock(); return s
def full_info(state, expected, t):
    return {'group':'app','name':'p','state':state,'statename':NAMES[state],'start':0,'stop':0,'now':t,'pid':0,'description':'',
            'spawnerr':'' if expected else 'err','expected':expected,'startsecs':1,'stopwaitsecs':1,'extra_args':'','disabled':False,
            'now_monotonic':float(t),'start_monotonic':0.0,'stop_monotonic':0.0,'program_name':'p','process_index':0,'has_stdout':False,'has_stderr':False}
def event(state, expected, t):
    return {'group':'app','name':'p','state':state,'now':t,'now_monotonic':float(t),'pid':0,'expected':expected,'spawnerr':'','extra_args':'','disabled':False,
            'identifier':'x','nick_identifier':'x'}
def obs(p):
    ids=sorted(int(x) for x in p.running_identifiers)
    return f"running=[{', '.join(map(str,ids))}] state={int(p.state)} exp={'true' if p.expected_exit else 'false'}"
def gen_case(rnd, ninst, nops):
    ops=[]
    for _ in range(nops):
        i=rnd.randrange(1,ninst+1)
        if rnd.random()<0.12: ops.append(('lose',i))
        else:
            # bias toward running-ish states to get conflicts
            s=rnd.choice(STATES if rnd.random()<0.5 else [10,20,20,30,40,0,100])
            ops.append(('report',i,s,rnd.random()<0.7))
    return ops
def run_impl(ops, lines, out):
    s=supv(); p=ProcessStatus('app','p',ProcessRules(s),s)
    lines.append('new'); out.append('ok')
    for op in ops:
        if op[0]=='report':
            _,i,st,e=op; t=CLOCK[0]+1
            ident=str(i)
            if ident in p.info_map: p.update_info(ident, event(st,e,t))
            else: p.add_info(ident, full_info(st,e,t))
            lt=int(p.info_map[ident]['local_mtime'])
            lines.append(f"report {i} {st} {1 if e else 0} {t} {lt}")
        else:
            _,i=op; ident=str(i)
            p.invalidate_identifier(ident)
            lt=int(p.info_map[ident]['local_mtime']) if ident in p.info_map else 0
            lines.append(f"lose {i} {lt}")
        out.append(obs(p))
if __name__=='__main__':
    seed=int(sys.argv[1]); ncases=int(sys.argv[2])
    rnd=random.Random(seed)
    lines=[]; out=[]; bounds=[]
    t0=_time.time()
    for c in range(ncases):
        ops=gen_case(rnd, rnd.randint(1,4), rnd.randint(1,30))
        start=len(lines); run_impl(ops, lines, out); bounds.append((start,len(lines)))
    t1=_time.time()
    r=subprocess.run(['lake','env','lean','--run','Driver.lean'], cwd='/tmp/leanprobe/Probe', input='\n'.join(lines)+'\n', capture_output=True, text=True)
    t2=_time.time()
    model=r.stdout.strip().split('\n')
    assert len(model)==len(out), (len(model), len(out), r.stderr[:500])
    bad=[k for k,(a,b) in enumerate(zip(out,model)) if a!=b]
    print(f"cases={ncases} ops={len(lines)} impl_time={t1-t0:.2f}s model_time={t2-t1:.2f}s disagreements={len(bad)}")
    conflicts=sum(1 for o in out if o.count(',')>=1 and 'running=[' in o and ', ' in o.split(']')[0])
    print('observations with >=2 listed:', conflicts)
    for k in bad[:5]:
        cs=next(c for c,(a,b) in enumerate(bounds) if a<=k<b); a,b=bounds[cs]
        print('--- case',cs); 
        for q in range(a,k+1): print(lines[q],'| impl:',out[q],'| model:',model[q])
