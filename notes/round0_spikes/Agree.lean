import Probe.Inst1

/-! Spike: C01 agreement at quiescent fixpoints, any number of instances (pure formulation over `Modes`). -/
namespace Agree

structure View where
  own : Modes
  peer : Nat → Modes

def sm (me : Nat) (v : View) (j : Nat) : Modes := if j = me then v.own else v.peer j
def runningIn (m : Modes) (j : Nat) : Bool := m.inst.getD j .stopped == .running

/-- declared Masters of the instances seen RUNNING (get_master_identifiers) -/
def mastersOf (n me : Nat) (v : View) : List (Option Nat) :=
  ((List.range n).filter (runningIn v.own)).map (fun j => (sm me v j).master)

/-- check_master -/
def checkMasterP (n me : Nat) (v : View) : Bool :=
  let ms := mastersOf n me v
  !ms.contains none && (match ms with | [] => true | h :: t => t.all (· == h))

def allCands (declared : List (Option Nat)) (running : List Nat) : List Nat :=
  if (declared.filterMap id).eraseDups.isEmpty then running else (declared.filterMap id).eraseDups

def candidates (core : List Nat) (declared : List (Option Nat)) (running : List Nat) : List Nat :=
  if (core.filter (· ∈ allCands declared running)).isEmpty then allCands declared running
  else core.filter (· ∈ allCands declared running)

def foldMin (rank : Nat → Nat) (l : List Nat) (acc : Option Nat) : Option Nat :=
  l.foldl (fun acc x => match acc with
    | none => some x
    | some m => if rank x < rank m then some x else some m) acc

/-- select_master as a function of the declared Masters and the RUNNING set -/
def selectFrom (rank : Nat → Nat) (core : List Nat) (declared : List (Option Nat)) (running : List Nat) : Option Nat :=
  foldMin rank (candidates core declared running) none

def selectMasterP (rank : Nat → Nat) (core : List Nat) (n me : Nat) (v : View) : Option Nat :=
  selectFrom rank core (mastersOf n me v) ((List.range n).filter (runningIn v.own))

/-- the minimum fold returns a member of the list, and `some` for a non-empty list -/
theorem foldMin_mem (rank : Nat → Nat) (l : List Nat) (acc : Option Nat) (r : Nat)
    (h : foldMin rank l acc = some r) : r ∈ l ∨ acc = some r := by
  unfold foldMin at h
  induction l generalizing acc with
  | nil => simp at h; exact Or.inr h
  | cons a t ih =>
    simp only [List.foldl_cons] at h
    cases ih _ h with
    | inl hm => exact Or.inl (by simp [hm])
    | inr he =>
      cases acc with
      | none => simp at he; exact Or.inl (by simp [he])
      | some m =>
        simp at he
        split at he
        · simp at he; exact Or.inl (by simp [he])
        · exact Or.inr (by simpa using he)

theorem foldMin_some (rank : Nat → Nat) (l : List Nat) (acc : Option Nat) (hl : l ≠ [] ∨ acc.isSome) :
    (foldMin rank l acc).isSome := by
  unfold foldMin
  induction l generalizing acc with
  | nil => simp at hl ⊢; exact hl
  | cons a t ih =>
    simp only [List.foldl_cons]
    apply ih
    right
    cases acc with
    | none => simp
    | some m => simp; split <;> simp

theorem allCands_mem (declared : List (Option Nat)) (running : List Nat) (r : Nat)
    (h : r ∈ allCands declared running) : some r ∈ declared ∨ r ∈ running := by
  unfold allCands at h
  split at h
  · exact Or.inr h
  · left
    rw [List.mem_eraseDups] at h
    simpa [List.mem_filterMap] using h

theorem allCands_ne (declared : List (Option Nat)) (running : List Nat) (hr : running ≠ []) :
    allCands declared running ≠ [] := by
  unfold allCands
  split
  · exact hr
  · rename_i h; intro hh; simp [hh] at h

theorem candidates_mem (core : List Nat) (declared : List (Option Nat)) (running : List Nat) (r : Nat)
    (h : r ∈ candidates core declared running) : some r ∈ declared ∨ r ∈ running := by
  unfold candidates at h
  split at h
  · exact allCands_mem _ _ _ h
  · rw [List.mem_filter] at h
    exact allCands_mem _ _ _ (by simpa using h.2)

theorem candidates_ne (core : List Nat) (declared : List (Option Nat)) (running : List Nat) (hr : running ≠ []) :
    candidates core declared running ≠ [] := by
  unfold candidates
  split
  · exact allCands_ne _ _ hr
  · rename_i h; intro hh; simp [hh] at h

/-- the selected Master is a declared Master or a RUNNING instance -/
theorem selectFrom_mem (rank : Nat → Nat) (core : List Nat) (declared : List (Option Nat)) (running : List Nat) (r : Nat)
    (h : selectFrom rank core declared running = some r) : some r ∈ declared ∨ r ∈ running := by
  unfold selectFrom at h
  cases foldMin_mem rank _ none r h with
  | inl hm => exact candidates_mem _ _ _ _ hm
  | inr he => simp at he

theorem selectFrom_some (rank : Nat → Nat) (core : List Nat) (declared : List (Option Nat)) (running : List Nat)
    (hr : running ≠ []) : (selectFrom rank core declared running).isSome := by
  unfold selectFrom
  exact foldMin_some rank _ none (Or.inl (candidates_ne _ _ _ hr))

/-- **C01 (agreement at quiescent fixpoints), any number of instances.**
    `live`: the live instances; every live instance sees exactly the live ones RUNNING (connected), its stored copy
    of every other live instance is that instance's current publication (quiescent), it holds a Master only if it
    sees it RUNNING, and it is at a fixpoint of its FSM: in ELECTION `select_master` returns what it already holds,
    past ELECTION `check_master` holds. Then all live instances hold the same Master, which is live. -/
theorem C01_quiescent_agreement
    (n : Nat) (rank : Nat → Nat) (core : List Nat) (live : List Nat) (V : Nat → View)
    (hne : live ≠ []) (hsub : ∀ i ∈ live, i < n)
    (hconn : ∀ i ∈ live, ∀ j, j < n → (runningIn (V i).own j = true ↔ j ∈ live))
    (hquiet : ∀ i ∈ live, ∀ j ∈ live, j ≠ i → (V i).peer j = (V j).own)
    (hlinv : ∀ i ∈ live, ∀ m, (V i).own.master = some m → runningIn (V i).own m = true ∧ m < n)
    (hfix : ∀ i ∈ live,
      ((V i).own.fsm = .election ∧ selectMasterP rank core n i (V i) = (V i).own.master) ∨
      ((V i).own.fsm ≠ .election ∧ checkMasterP n i (V i) = true)) :
    ∃ m ∈ live, ∀ i ∈ live, (V i).own.master = some m := by
  -- the list of declared Masters is the same list for every live instance
  let L := (List.range n).filter (fun j => decide (j ∈ live))
  have hfilter : ∀ i ∈ live, (List.range n).filter (runningIn (V i).own) = L := by
    intro i hi
    apply List.filter_congr
    intro j hj
    have hjn : j < n := by simpa using hj
    have := hconn i hi j hjn
    by_cases h : j ∈ live
    · simp [h, this.mpr h]
    · have : runningIn (V i).own j = false := by
        cases hh : runningIn (V i).own j
        · rfl
        · exact absurd (this.mp hh) h
      simp [h, this]
  have hmasters : ∀ i ∈ live, mastersOf n i (V i) = L.map (fun j => (V j).own.master) := by
    intro i hi
    unfold mastersOf
    rw [hfilter i hi]
    apply List.map_congr_left
    intro j hj
    have hjl : j ∈ live := by simpa [L] using (List.mem_filter.mp hj).2
    unfold sm
    by_cases h : j = i
    · subst h; simp
    · simp [h, hquiet i hi j hjl h]
  have hLmem : ∀ j, j ∈ L ↔ j ∈ live := by
    intro j
    simp only [L, List.mem_filter, List.mem_range, decide_eq_true_eq]
    exact ⟨fun h => h.2, fun h => ⟨hsub j h, h⟩⟩
  have hLne : L ≠ [] := by
    obtain ⟨a, ha⟩ := List.exists_mem_of_ne_nil live hne
    intro h
    have := (hLmem a).mpr ha
    simp [h] at this
  let M := L.map (fun j => (V j).own.master)
  -- a Master held by a live instance is live
  have hlive : ∀ i ∈ live, ∀ m, (V i).own.master = some m → m ∈ live := by
    intro i hi m hm
    obtain ⟨h1, h2⟩ := hlinv i hi m hm
    exact (hconn i hi m h2).mp h1
  by_cases hall : ∀ i ∈ live, (V i).own.fsm = .election
  · -- (B) everybody in ELECTION: the deterministic rule gives everybody the same value
    have hsel : ∀ i ∈ live, (V i).own.master = selectFrom rank core M L := by
      intro i hi
      cases hfix i hi with
      | inl h => rw [← h.2]; unfold selectMasterP; rw [hmasters i hi, hfilter i hi]
      | inr h => exact absurd (hall i hi) h.1
    have hs := selectFrom_some rank core M L hLne
    obtain ⟨m, hm⟩ := Option.isSome_iff_exists.mp hs
    refine ⟨m, ?_, fun i hi => by rw [hsel i hi, hm]⟩
    cases selectFrom_mem rank core M L m hm with
    | inl hd =>
      simp only [M, List.mem_map] at hd
      obtain ⟨j, hj, hjm⟩ := hd
      exact hlive j ((hLmem j).mp hj) m hjm
    | inr hr => exact (hLmem m).mp hr
  · -- (A) somebody is past ELECTION: its `check_master` forces everybody's Master
    have : ∃ i ∈ live, (V i).own.fsm ≠ .election := by
      apply Classical.byContradiction
      intro hc
      apply hall
      intro i hi
      apply Classical.byContradiction
      intro hne'
      exact hc ⟨i, hi, hne'⟩
    obtain ⟨i0, hi0, hf0⟩ := this
    have hck : checkMasterP n i0 (V i0) = true := by
      cases hfix i0 hi0 with
      | inl h => exact absurd h.1 hf0
      | inr h => exact h.2
    unfold checkMasterP at hck
    rw [hmasters i0 hi0] at hck
    simp only [Bool.and_eq_true, Bool.not_eq_true'] at hck
    obtain ⟨hnone, hsame⟩ := hck
    -- M is non-empty, all equal, none absent
    cases hM : M with
    | nil => simp [M] at hM; exact absurd hM hLne
    | cons h t =>
      have hM' : L.map (fun j => (V j).own.master) = h :: t := hM
      rw [hM'] at hnone hsame
      have hall2 : ∀ x ∈ (h :: t), x = h := by
        intro x hx
        simp at hx
        cases hx with
        | inl e => exact e
        | inr e =>
          simp only [List.all_eq_true] at hsame
          have := hsame x e
          simpa using this
      cases h with
      | none => simp at hnone
      | some m =>
        have hmaster : ∀ i ∈ live, (V i).own.master = some m := by
          intro i hi
          have : (V i).own.master ∈ M := by
            simp only [M, List.mem_map]
            exact ⟨i, (hLmem i).mpr hi, rfl⟩
          rw [hM] at this
          exact hall2 _ this
        obtain ⟨a, ha⟩ := List.exists_mem_of_ne_nil live hne
        exact ⟨m, hlive a ha m (hmaster a ha), hmaster⟩

end Agree
