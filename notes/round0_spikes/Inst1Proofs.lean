import Probe.Inst1

/-- C13 (airtight, model level): any message whose origin is ISOLATED leaves the instance unchanged and emits nothing -/
theorem C13_airtight_rtick (c : Cfg) (s : St) (now j k : Nat)
    (h : (s.peers.getD j {}).state = .isolated) :
    stepOp c s now (.rtick j k) = ({ s with now := now, out := [] }, none) := by
  simp only [List.getD_eq_getElem?_getD] at h
  simp [stepOp, handle, isValid, getPeer, StateT.run, bind, StateT.bind, get, getThe, MonadStateOf.get, StateT.get, pure, StateT.pure, Except.pure, Except.bind, h]

theorem C13_airtight_state (c : Cfg) (s : St) (now j : Nat) (m : Modes)
    (h : (s.peers.getD j {}).state = .isolated) :
    stepOp c s now (.state j m) = ({ s with now := now, out := [] }, none) := by
  simp only [List.getD_eq_getElem?_getD] at h
  simp [stepOp, handle, isValid, getPeer, StateT.run, bind, StateT.bind, get, getThe, MonadStateOf.get, StateT.get, pure, StateT.pure, Except.pure, Except.bind, h]

theorem C13_airtight_failure (c : Cfg) (s : St) (now j : Nat)
    (h : (s.peers.getD j {}).state = .isolated) :
    stepOp c s now (.failure j) = ({ s with now := now, out := [] }, none) := by
  simp only [List.getD_eq_getElem?_getD] at h
  simp [stepOp, handle, isValid, getPeer, StateT.run, bind, StateT.bind, get, getThe, MonadStateOf.get, StateT.get, pure, StateT.pure, Except.pure, Except.bind, h]

theorem C13_airtight_auth (c : Cfg) (s : St) (now j code ts : Nat)
    (h : (s.peers.getD j {}).state = .isolated) :
    stepOp c s now (.auth j code ts) = ({ s with now := now, out := [] }, none) := by
  simp only [List.getD_eq_getElem?_getD] at h
  simp [stepOp, handle, isValid, getPeer, StateT.run, bind, StateT.bind, get, getThe, MonadStateOf.get, StateT.get, pure, StateT.pure, Except.pure, Except.bind, h]

/-- ISOLATED has no successor: the setter refuses every change -/
theorem isolated_terminal (t : IState) : t ∉ IState.isolated.next := by simp [IState.next]

/-- documented graph: the FSM table only contains documented edges (spot obligations, by `decide`) -/
theorem final_terminal : SState.final.next = [] := rfl
theorem ending_only_final : SState.restarting.next = [.final] ∧ SState.shuttingDown.next = [.final] := ⟨rfl, rfl⟩

/-! ### frame property: who writes the local FSM state -/

def fsmOf (c : Cfg) (s : St) : SState := (s.modes.getD c.me {}).fsm

/-- a monadic action preserves the local FSM state -/
def KeepsFsm (c : Cfg) {α} (x : M α) : Prop :=
  ∀ s a s', x.run s = .ok (a, s') → fsmOf c s' = fsmOf c s

theorem KeepsFsm.pure (c : Cfg) {α} (a : α) : KeepsFsm c (pure a : M α) := by
  intro s a' s' h
  simp [StateT.run, Pure.pure, StateT.pure, Except.pure] at h
  obtain ⟨_, rfl⟩ := h; rfl

theorem KeepsFsm.bind (c : Cfg) {α β} (x : M α) (f : α → M β)
    (hx : KeepsFsm c x) (hf : ∀ a, KeepsFsm c (f a)) : KeepsFsm c (x >>= f) := by
  intro s b s' h
  simp only [StateT.run, Bind.bind, StateT.bind, Except.bind] at h
  cases hx1 : x s with
  | error e => simp [hx1] at h
  | ok r =>
    obtain ⟨a, s1⟩ := r
    simp only [hx1] at h
    have h1 := hx s a s1 (by simpa [StateT.run] using hx1)
    have h2 := hf a s1 b s' (by simpa [StateT.run] using h)
    rw [h2, h1]

theorem KeepsFsm.get (c : Cfg) : KeepsFsm c (get : M St) := by
  intro s a s' h
  simp [StateT.run, MonadState.get, getThe, MonadStateOf.get, StateT.get, Pure.pure, Except.pure] at h
  obtain ⟨_, rfl⟩ := h; rfl

theorem KeepsFsm.throw (c : Cfg) {α} (e : Err) : KeepsFsm c (MonadExcept.throw e : M α) := by
  intro s a s' h
  have : (MonadExcept.throw e : M α).run s = Except.error e := rfl
  rw [this] at h
  cases h

theorem KeepsFsm.emit (c : Cfg) (o : Out) : KeepsFsm c (emit o) := by
  intro s a s' h
  simp [emit, StateT.run, modify, modifyGet, MonadStateOf.modifyGet, StateT.modifyGet, Pure.pure, Except.pure] at h
  obtain ⟨_, rfl⟩ := h; rfl

theorem KeepsFsm.setPeer (c : Cfg) (j : Nat) (p : Peer) : KeepsFsm c (setPeer j p) := by
  intro s a s' h
  simp [_root_.setPeer, StateT.run, modify, modifyGet, MonadStateOf.modifyGet, StateT.modifyGet, Pure.pure, Except.pure] at h
  obtain ⟨_, rfl⟩ := h; rfl

theorem KeepsFsm.getPeer (c : Cfg) (j : Nat) : KeepsFsm c (getPeer j) := by
  unfold _root_.getPeer
  exact KeepsFsm.bind c _ _ (KeepsFsm.get c) (fun _ => KeepsFsm.pure c _)

/-- writing a Modes record that keeps the `fsm` field of the local record -/
theorem KeepsFsm.setModes_other (c : Cfg) (j : Nat) (m : Modes) (hj : j ≠ c.me) : KeepsFsm c (setModes j m) := by
  intro s a s' h
  simp [_root_.setModes, StateT.run, modify, modifyGet, MonadStateOf.modifyGet, StateT.modifyGet, Pure.pure, Except.pure] at h
  obtain ⟨_, rfl⟩ := h
  simp [fsmOf, List.getD_eq_getElem?_getD, List.getElem?_set_ne hj]
