import Probe.Rules
open R

def hexVal (c : Char) : Nat := if c.isDigit then c.toNat - '0'.toNat else c.toNat - 'a'.toNat + 10
def unhex (s : String) : String :=
  let rec go : List Char → List Char
    | a :: b :: t => Char.ofNat (hexVal a * 16 + hexVal b) :: go t
    | _ => []
  String.ofList (go s.toList)
/-- "_" = absent, "=<hex>" = present -/
def optStr (s : String) : Option String := if s == "_" then none else some (unhex (s.drop 1).toString)

def showRules (r : Rules) : String :=
  s!"ids={r.identifiers} at={r.atIdentifiers} hash={r.hashIdentifiers} start={r.startSeq} stop={r.stopSeq} req={r.required} wait={r.waitExit} load={r.load} sfs={r.sfs} rfs={r.rfs}"

def mkElt (f : List String) : Elt :=
  let g (k : Nat) := optStr (f.getD k "_")
  { name := g 0, pattern := g 1, reference := g 2, identifiers := g 3, startSeq := g 4, stopSeq := g 5, required := g 6,
    waitExit := g 7, loading := g 8, sfs := g 9, rfs := g 10 }

def stepLine (d : Doc) (line : String) : Doc × String :=
  match line.trimAscii.toString.splitOn " " with
  | ["doc"] => ({}, "ok")
  | ["alias", n, vals] => ({ d with aliases := d.aliases ++ [(unhex n, if vals == "_" then [] else (vals.splitOn ",").map unhex)] }, "ok")
  | "model" :: f => ({ d with models := d.models ++ [mkElt f] }, "ok")
  | ["app", n, p] => ({ d with apps := d.apps ++ [{ name := optStr n, pattern := optStr p }] }, "ok")
  | "prog" :: f =>
    match d.apps.reverse with
    | [] => (d, "bad-op")
    | a :: rest => ({ d with apps := (({ a with programs := a.programs ++ [mkElt f] }) :: rest).reverse }, "ok")
  | ["match", p, n, len] => ({ d with matchTable := d.matchTable ++ [(unhex p, unhex n, len.toNat!)] }, "ok")
  | ["query", app, proc] => (d, showRules (loadProgramRules d (unhex app) (unhex proc) {}))
  | _ => (d, "bad-op")

partial def loop (i : IO.FS.Stream) (o : IO.FS.Stream) (d : Doc) : IO Unit := do
  let line ← i.getLine
  if line.isEmpty then return ()
  let (d', out) := stepLine d line
  o.putStrLn out
  loop i o d'

def main : IO Unit := do loop (← IO.getStdin) (← IO.getStdout) {}
