import Probe.Proc

def PState.ofCode : Nat → Option PState
  | 0 => some .stopped | 10 => some .starting | 20 => some .running | 30 => some .backoff
  | 40 => some .stopping | 100 => some .exited | 200 => some .fatal | 1000 => some .unknown | _ => none
def PState.code : PState → Nat
  | .stopped => 0 | .starting => 10 | .running => 20 | .backoff => 30 | .stopping => 40 | .exited => 100 | .fatal => 200 | .unknown => 1000

def insertSorted (x : Nat) : List Nat → List Nat
  | [] => [x]
  | y :: t => if x ≤ y then x :: y :: t else y :: insertSorted x t
def sortNat (l : List Nat) : List Nat := l.foldr insertSorted []

def obs (p : Proc) : String :=
  s!"running={sortNat p.running} state={p.state.code} exp={p.expectedExit}"

def stepLine (p : Proc) (line : String) : Proc × String :=
  match (line.trimAscii.toString.splitOn " ") with
  | ["new"] => ({}, "ok")
  | ["report", i, s, e, et, lt] =>
    match i.toNat?, s.toNat? >>= PState.ofCode, et.toNat?, lt.toNat? with
    | some i, some s, some et, some lt => let p' := step p (.report i s (e == "1") et lt); (p', obs p')
    | _, _, _, _ => (p, "bad-op")
  | ["lose", i, lt] =>
    match i.toNat?, lt.toNat? with
    | some i, some lt => let p' := step p (.lose i lt); (p', obs p')
    | _, _ => (p, "bad-op")
  | _ => (p, "bad-op")

partial def loop (h : IO.FS.Stream) (out : IO.FS.Stream) (p : Proc) : IO Unit := do
  let line ← h.getLine
  if line.isEmpty then return ()
  let (p', o) := stepLine p line
  out.putStrLn o
  loop h out p'

def main : IO Unit := do loop (← IO.getStdin) (← IO.getStdout) {}
