""" Spike: GLOBAL lock-step of the Lean cluster model (Net.lean: N x Inst3 + communication layer) against each real instance of a
    simulated cluster (real Context / StateModes / FSM / Listener / SupervisorProxy), no applications. """
import sys, json, random, warnings, subprocess, time as _t
warnings.filterwarnings('ignore')
from unittest.mock import Mock, patch

UNIT = 1024           # clock units per second
T = [10 * UNIT]
patch('time.monotonic', side_effect=lambda: T[0] / UNIT).start()
patch('time.time', side_effect=lambda: 1.0e6 + T[0] / UNIT).start()

CUR = [1]
def gethostbyaddr(x):
    ident = x.split('.')[-1]
    return f'supv0{ident}.bzh', [f'cliche0{ident}', f'supv0{ident}'], [x]
patch('socket.gethostname', side_effect=lambda: f'supv0{CUR[0]}.bzh').start()
patch('socket.getfqdn', side_effect=lambda *a: f'supv0{CUR[0]}.bzh').start()
patch('socket.gethostbyaddr', side_effect=gethostbyaddr).start()
patch('socket.if_nameindex', return_value=[(1, 'lo'), (2, 'eth0')]).start()
patch('uuid.getnode', side_effect=lambda: 1250999896491 + CUR[0]).start()
patch('supvisors.internal_com.mapper.get_interface_info',
      side_effect=lambda x: {'lo': ('127.0.0.1', '255.0.0.0'), 'eth0': (f'10.0.0.{CUR[0]}', '255.255.255.0')}[x]).start()

from supvisors.tests.base import DummySupervisor
from supvisors.options import SupvisorsOptions
from supvisors.supervisordata import SupervisorData
from supvisors.internal_com.mapper import SupvisorsMapper
from supvisors.internal_com.rpchandler import RpcHandler
from supvisors.internal_com.supervisorproxy import SupervisorProxy, InternalEventHeaders, SupervisorProxyException
from supvisors.statemodes import SupvisorsStateModes
from supvisors.context import Context
from supvisors.commander import Starter, Stopper, StarterModel
from supvisors.strategy import RunningFailureHandler
from supvisors.statemachine import FiniteStateMachine
from supvisors.listener import SupervisorListener
from supvisors.rpcinterface import RPCInterface
from supvisors.ttypes import *
from supervisor.xmlrpc import RPCError


class Net:
    def __init__(self):
        self.instances = {}; self.down = set(); self.cut = set()
    def reachable(self, a, b):
        return b not in self.down and a not in self.down and frozenset((a, b)) not in self.cut

class FakeNS:
    def __init__(self, fn): self._fn = fn
    def __getattr__(self, name): return lambda *a: self._fn(name, *a)

class FakeServerProxy:
    def __init__(self, net, src, dst):
        self.net, self.src, self.dst = net, src, dst
        self.supervisor = FakeNS(self._supervisor); self.supvisors = FakeNS(self._supvisors)
    def _check(self):
        if not self.net.reachable(self.src, self.dst): raise ConnectionRefusedError('sim')
    def _supervisor(self, name, *args):
        self._check(); tgt = self.net.instances[self.dst]
        if name == 'sendRemoteCommEvent': tgt.inbox.append((args[0], args[1])); return True
        if name in ('restart', 'shutdown'): tgt.orders.append(name); return True
        raise NotImplementedError(name)
    def _supvisors(self, name, *args):
        self._check(); tgt = self.net.instances[self.dst]
        if name in ('restart', 'shutdown'):
            tgt.rpc_call(name); return True
        return json.loads(json.dumps(getattr(tgt.rpc, name)(*args)))

class SimProxy(SupervisorProxy):
    def __init__(self, status, supvisors, net):
        super().__init__(status, supvisors); self.net = net; self.queue = []
    @property
    def proxy(self): return FakeServerProxy(self.net, self.supvisors.mapper.local_identifier, self.status.identifier)
    def push_message(self, message): self.queue.append(message)
    def step(self):
        event = self.queue.pop(0)
        try:
            event_type, (source, event_body) = event
            if event_type == InternalEventHeaders.REQUEST: self.execute(event_body)
            elif event_type == InternalEventHeaders.PUBLICATION: self.publish(source, event_body)
            elif event_type == InternalEventHeaders.NOTIFICATION:
                self.send_remote_comm_event(SUPVISORS_NOTIFICATION, (source, event_body))
        except SupervisorProxyException:
            if self.status.identifier == self.local_identifier: pass
            elif self.status.has_active_state():
                origin = self._get_origin(self.status.identifier)
                self.supvisors.rpc_handler.proxy_server.push_notification((origin, (NotificationHeaders.INSTANCE_FAILURE.value, None)))

class SimProxyServer:
    def __init__(self, supvisors, net): self.supvisors, self.net, self.proxies = supvisors, net, {}
    @property
    def local_identifier(self): return self.supvisors.mapper.local_identifier
    def get_proxy(self, identifier):
        proxy = self.proxies.get(identifier); status = self.supvisors.context.instances[identifier]
        if not proxy and not status.isolated: proxy = self.proxies[identifier] = SimProxy(status, self.supvisors, self.net)
        elif proxy and status.isolated: del self.proxies[identifier]; proxy = None
        return proxy
    def stop(self): pass
    def push_request(self, identifier, message):
        proxy = self.get_proxy(identifier)
        if proxy: proxy.push_message((InternalEventHeaders.REQUEST, (self.local_identifier, message)))
    def push_publication(self, message):
        for identifier in self.supvisors.mapper.instances:
            if identifier != self.local_identifier:
                proxy = self.get_proxy(identifier)
                if proxy: proxy.push_message((InternalEventHeaders.PUBLICATION, (self.local_identifier, message)))
    def push_notification(self, message):
        proxy = self.get_proxy(self.local_identifier)
        if proxy: proxy.push_message((InternalEventHeaders.NOTIFICATION, message))

class RecLogger:
    level = 50; handlers = []
    def __init__(self): self.crit = []
    def critical(self, msg): self.crit.append(msg)
    def error(self, msg): pass
    warn = info = debug = trace = blather = error
    def log(self, level, msg): pass

SNAMES = [s.name for s in SupvisorsStates]

class Sim:
    def __init__(self, net, k, n, opts):
        CUR[0] = k; self.k = k; self.net = net; self.n = n
        supervisord = DummySupervisor(); supervisord.process_groups = {}
        self.logger = RecLogger()
        self.options = SupvisorsOptions(supervisord, self.logger, **opts)
        self.options.synchro_options = list(self.options.synchro_options)
        self.options.rules_files = []
        self.supervisor_data = SupervisorData(self, supervisord); supervisord.supvisors = self
        self.supervisor_updater = Mock()
        self.mapper = SupvisorsMapper(self)
        self.mapper.configure([f'10.0.0.{i}' for i in range(1, n + 1)], set(), list(self.options.core_identifiers))
        self.server_options = Mock(); self.stats_collector = None
        self.host_compiler = Mock(); self.process_compiler = Mock()
        self.discovery_handler = None; self.external_publisher = None
        self.state_modes = SupvisorsStateModes(self); self.context = Context(self)
        self.starter = Starter(self); self.stopper = Stopper(self); self.starter_model = StarterModel(self)
        self.failure_handler = RunningFailureHandler(self); self.parser = None
        self.listener = SupervisorListener(self); self.fsm = FiniteStateMachine(self)
        self.rpc_handler = RpcHandler(self); self.rpc_handler.proxy_server = SimProxyServer(self, net)
        self.sessions = Mock(); self.rpc = RPCInterface(self)
        self.rpc.get_all_local_process_info = lambda: []
        self.inbox = []; self.orders = []
        self.identifier = self.mapper.local_identifier
        self.idx = {ident: i for i, ident in enumerate(self.mapper.instances)}
        net.instances[self.identifier] = self
        self.listener.counter = 0
        # recording of emitted messages
        self.emitted = []
        h = self.rpc_handler
        orig_state = h.send_state_event; h.send_state_event = lambda p: (self.emitted.append('pub'), orig_state(p))[1]
        orig_check = h.send_check_instance; h.send_check_instance = lambda i: (self.emitted.append(f'check{self.idx[i]}'), orig_check(i))[1]
        orig_r = h.send_restart; h.send_restart = lambda i: (self.emitted.append('restartLocal'), orig_r(i))[1]
        orig_s = h.send_shutdown; h.send_shutdown = lambda i: (self.emitted.append('shutdownLocal'), orig_s(i))[1]
        orig_ra = h.send_restart_all; h.send_restart_all = lambda i: (self.emitted.append(f'restartAll{self.idx[i]}'), orig_ra(i))[1]
        orig_sa = h.send_shutdown_all; h.send_shutdown_all = lambda i: (self.emitted.append(f'shutdownAll{self.idx[i]}'), orig_sa(i))[1]
        self.lines = []; self.obs = []
        o = self.options
        so = o.synchro_options
        nick = sorted(self.mapper.instances, key=lambda x: self.mapper.instances[x].nick_identifier)
        rank = [nick.index(x) for x in self.mapper.instances]
        core = [self.idx[x] for x in self.mapper.core_identifiers]
        initial = [self.idx[x] for x in self.mapper.initial_identifiers]
        fl = lambda l: ','.join(map(str, l)) if l else '-'
        self.lines.append(f"cfg {n} {self.idx[self.identifier]} {fl(rank)} {fl(core)} {fl(initial)}"
                          f" {int(SynchronizationOptions.STRICT in so)} {int(SynchronizationOptions.LIST in so)}"
                          f" {int(SynchronizationOptions.TIMEOUT in so)} {int(SynchronizationOptions.CORE in so)}"
                          f" {int(SynchronizationOptions.USER in so)} {int(o.synchro_timeout) * UNIT} {o.inactivity_ticks}"
                          f" {int(o.auto_fence)} {o.supvisors_failure_strategy.name} {int(self.context.start_date * UNIT)}")
        self.obs.append('ok')

    # observation
    def observe(self, err=None):
        sm = self.state_modes; lm = sm.local_state_modes
        master = str(self.idx[lm.master_identifier]) if lm.master_identifier else '-'
        inst = ','.join(str(lm.instance_states[i].value) for i in self.mapper.instances)
        outs = []
        for c in self.logger.crit:
            if 'unexpected transition from' in c:
                a, b_ = c.split('unexpected transition from ')[1].split(' to ')
                outs.append(f'refused{SNAMES.index(a)}>{SNAMES.index(b_.strip())}')
        crit_tb = [c for c in self.logger.crit if 'Traceback' in c]
        if crit_tb and err is None:
            err = 'InvalidTransition' if 'InvalidTransition' in crit_tb[0] else 'Other:' + crit_tb[0][-120:]
            self.last_err = err
        self.logger.crit = []
        emitted = self.emitted + outs; self.emitted = []
        return (f"fsm={lm.state.value} master={master} inst={inst} deg={'true' if lm.degraded_mode else 'false'}"
                f" out=[{','.join(emitted)}] {err or 'ok'}")

    def record(self, op, err=None):
        self.lines.append(f"op {T[0]} {op}"); self.obs.append(self.observe(err))

    def modes_str(self, payload):
        master = str(self.idx[payload['master_identifier']]) if payload['master_identifier'] else '-'
        inst = ','.join(str(SupvisorsInstanceStates[payload['instance_states'][i]].value) for i in self.mapper.instances) \
            if payload['instance_states'] else '-'
        return f"{payload['fsm_statecode']} {int(payload['degraded_mode'])} {master} {inst}"

    # scheduler actions
    def on_running(self):
        self.listener.on_running(None); self.record('running')
    def tick(self):
        ev = Mock(); ev.when = 1.0e6 + T[0] / UNIT
        counter = self.listener.counter
        self.listener.on_tick(ev); self.record(f'ltick {counter}')
    def deliver(self):
        typ, data = self.inbox.pop(0)
        origin, (header, body) = json.loads(data)
        j = self.idx.get(origin[0])
        op = None
        if typ == SUPVISORS_PUBLICATION:
            h = PublicationHeaders(header)
            if h == PublicationHeaders.TICK: op = f"rtick {j} {body['sequence_counter']}"
            elif h == PublicationHeaders.STATE: op = f"state {j} {self.modes_str(body)}"
        else:
            h = NotificationHeaders(header)
            if h == NotificationHeaders.AUTHORIZATION: op = f"auth {j} {body['authorization']} {int(round(body['now_monotonic'] * UNIT))}"
            elif h == NotificationHeaders.STATE: op = f"state {j} {self.modes_str(body)}"
            elif h == NotificationHeaders.ALL_INFO and body is None: op = f"allinfonone {j}"
            elif h == NotificationHeaders.INSTANCE_FAILURE: op = f"failure {j}"
        ev = Mock(); ev.type = typ; ev.data = data
        self.listener.on_remote_event(ev)
        if op: self.record(op)
        else: self.observe()   # flush
    def rpc_call(self, name, *args):
        err = None
        try: getattr(self.rpc, name)(*args)
        except RPCError as e: return      # gated: no model op
        except (RuntimeError, ValueError) as e: err = 'NoMaster'
        self.last_err = err
        if name == 'end_sync':
            m = args[0] if args else ''
            self.record(f"endsync {self.idx[self.mapper.filter([m])[0]] if m else '-'}", err)
        else: self.record(name, err)
    def proxies_with_work(self):
        return [(i, p) for i, p in self.rpc_handler.proxy_server.proxies.items() if p.queue]


GLOBAL = {'lines': [], 'obs': []}
SIMS = []; NET = [None]

def gobs(sims, net, touched=()):
    def one(s):
        lm = s.state_modes.local_state_modes
        master = str(s.idx[lm.master_identifier]) if lm.master_identifier else '-'
        return f"{lm.state.value}/{master}/{''.join(str(lm.instance_states[i].value) for i in s.mapper.instances)}/{int(lm.degraded_mode)}"
    n = len(sims)
    ids = list(sims[0].mapper.instances)
    def ql(s, j):
        p = s.rpc_handler.proxy_server.proxies.get(ids[j])
        return len(p.queue) if p else 0
    qs = ','.join(''.join(str(ql(s, j)) for j in range(n)) for s in sims)
    ib = ''.join(str(len(s.inbox)) for s in sims)
    errs = []
    for s in sims:
        tb = [c for c in s.logger.crit if 'Traceback' in c]
        e = getattr(s, 'last_err', None)
        if tb: e = 'InvalidTransition' if 'InvalidTransition' in tb[0] else 'Other'
        if e: errs.append(f"{s.k - 1}:{e}")
        s.logger.crit = []; s.emitted = []; s.last_err = None
    return f"{' '.join(one(s) for s in sims)} q={qs} in={ib} err=[{','.join(errs)}]"

def grec(sims, net, action, touched=()):
    GLOBAL['lines'].append(f"act {T[0]} {action}"); GLOBAL['obs'].append(gobs(sims, net, touched))

def run_case(seed, verbose=False):
    rnd = random.Random(seed)
    n = rnd.randint(2, 4)
    so = rnd.choice(['LIST', 'STRICT', 'TIMEOUT', 'STRICT,TIMEOUT,CORE', 'CORE', 'USER', 'LIST,USER', 'TIMEOUT,CORE'])
    core = ' '.join(f'10.0.0.{i}' for i in sorted(rnd.sample(range(1, n + 1), rnd.randint(1, n)))) if 'CORE' in so or rnd.random() < 0.3 else ''
    opts = {'synchro_timeout': str(rnd.choice([15, 20, 30])), 'inactivity_ticks': str(rnd.choice([2, 3])), 'core_identifiers': core,
            'auto_fence': rnd.choice(['false', 'true']), 'starting_strategy': 'CONFIG', 'conciliation_strategy': 'USER',
            'stats_enabled': 'false', 'synchro_options': so, 'supvisors_list': ','.join(f'10.0.0.{i}' for i in range(1, n + 1)),
            'supvisors_failure_strategy': rnd.choice(['CONTINUE', 'RESYNC', 'SHUTDOWN'])}
    T[0] = 10 * UNIT
    net = Net()
    sims = [Sim(net, k, n, dict(opts)) for k in range(1, n + 1)]
    GLOBAL['lines'].append('reset'); GLOBAL['obs'].append('ok')
    for s in sims:
        GLOBAL['lines'].append(s.lines[0]); GLOBAL['obs'].append('ok')
    GLOBAL['lines'].append(f'start {T[0]}'); GLOBAL['obs'].append('ok')
    SIMS[:] = sims; NET[0] = net
    period = 5 * UNIT
    next_tick = {s.k: T[0] + rnd.randint(1, period) for s in sims}
    started = set()
    held = {}     # (k, ident) -> release time
    end = T[0] + rnd.randint(12, 40) * period
    faults = rnd.randint(0, 10)
    fault_times = sorted(rnd.randint(T[0] + 6 * period, end - 4 * period) for _ in range(faults)) if end - 4 * period > T[0] + 6 * period else []
    while T[0] < end:
        T[0] += rnd.randint(1, 40)
        # faults
        while fault_times and fault_times[0] <= T[0]:
            fault_times.pop(0)
            kind = rnd.choice(['crash', 'cut', 'heal', 'hold', 'rpc'])
            s = rnd.choice(sims)
            if kind == 'crash' and len(net.down) < n - 1: net.down.add(s.identifier); grec(sims, net, f'crash {s.k - 1}')
            elif kind == 'cut':
                o = rnd.choice([x for x in sims if x is not s]); net.cut.add(frozenset((s.identifier, o.identifier))); grec(sims, net, f'cut {s.k - 1} {o.k - 1}')
            elif kind == 'heal': net.cut.clear(); grec(sims, net, 'heal')
            elif kind == 'hold':
                o = rnd.choice([x for x in sims if x is not s]); held[(s.k, o.identifier)] = T[0] + rnd.randint(period // 4, 2 * period)
            elif kind == 'rpc' and s.identifier not in net.down:
                name = rnd.choice(['restart', 'shutdown', 'end_sync', 'end_sync'])
                if name == 'end_sync':
                    m = rnd.choice(['', f'10.0.0.{rnd.randint(1, n)}'])
                    s.rpc_call('end_sync', m); grec(sims, net, f"rpc {s.k - 1} end_sync {int(m.split('.')[-1]) - 1 if m else '-'}", (s.k - 1,))
                else: s.rpc_call(name); grec(sims, net, f'rpc {s.k - 1} {name}', (s.k - 1,))
        # ticks due
        for s in sims:
            if s.identifier in net.down: continue
            if next_tick[s.k] <= T[0]:
                if s.k not in started: started.add(s.k); s.on_running(); grec(sims, net, f'running {s.k - 1}', (s.k - 1,))
                s.tick(); grec(sims, net, f'tick {s.k - 1}', (s.k - 1,)); next_tick[s.k] += period
        # one message hop
        acts = []
        for s in sims:
            if s.identifier in net.down: continue
            if s.inbox: acts.append(('deliver', s))
            for ident, p in s.proxies_with_work():
                if held.get((s.k, ident), 0) > T[0]: continue
                acts.append(('proxy', s, p))
        if acts:
            a = rnd.choice(acts)
            if a[0] == 'deliver': a[1].deliver(); grec(sims, net, f'deliver {a[1].k - 1}', (a[1].k - 1,))
            else:
                tgt = a[1].idx[a[2].status.identifier]
                a[2].step(); grec(sims, net, f'exec {a[1].k - 1} {tgt}', tuple(range(n)) if False else ())
    return sims, opts, n


if __name__ == '__main__':
    s0, s1 = int(sys.argv[1]), int(sys.argv[2])
    t_impl = 0.0
    for seed in range(s0, s1):
        t0 = _t.perf_counter(); run_case(seed); t_impl += _t.perf_counter() - t0
    lines, obs = GLOBAL['lines'], GLOBAL['obs']
    t0 = _t.perf_counter()
    r = subprocess.run(['lake', 'env', 'lean', '--run', 'Driver8.lean'], cwd='/tmp/leanprobe/Probe', input='\n'.join(lines) + '\n', capture_output=True, text=True)
    t_model = _t.perf_counter() - t0
    model = r.stdout.strip().split('\n')
    if len(model) != len(lines): print('LEN MISMATCH', len(model), len(lines), r.stderr[:500]); sys.exit(2)
    # per case: first diff
    ncase = nbad = 0; start = 0
    kinds = {}
    for k, l in enumerate(lines + ['reset']):
        if l == 'reset' and k > 0:
            ncase += 1
            bad = [q for q in range(start, k) if obs[q] != model[q]]
            if bad:
                nbad += 1
                if nbad <= 3:
                    q = bad[0]; print(f'--- case {ncase - 1 + s0}: first diff at global step {q - start}')
                    for z in range(max(start, q - 5), q + 1): print('   ', lines[z], '\n        impl :', obs[z], '\n        model:', model[z])
            start = k
        if l.startswith('act'): kinds[l.split()[2]] = kinds.get(l.split()[2], 0) + 1
    print(f'cases={ncase} global steps={len(lines)} cases_with_diff={nbad} impl={t_impl:.1f}s model={t_model:.1f}s actions={kinds}')
