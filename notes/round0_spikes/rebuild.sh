#!/bin/sh
# Rebuild the round-0 spike project from the files kept here (scratch only; not part of the machinery).
# usage: ./rebuild.sh [target-dir]   (default /tmp/leanprobe, which is where the corr_*.py / lockstep.py spikes look)
set -e
HERE="$(cd "$(dirname "$0")" && pwd)"
DST="${1:-/tmp/leanprobe}"
mkdir -p "$DST" && cd "$DST"
[ -d Probe ] || lake new Probe lib >/dev/null 2>&1
cd Probe
for f in Proc ProcProofs Rfh Inst1 Inst1Proofs Pres Inst2 Trace Trace2 Isolated Accuracy Inst3 Net Agree Cmd1 Cmd1Proofs Cmd2 Formula Stats StatsProofs Rules RulesProofs; do
  cp "$HERE/$f.lean" Probe/
done
cp "$HERE"/Driver*.lean .
# modules that can be imported together (Inst1/Inst2/Cmd1/Cmd2 define clashing global names and are built separately)
printf 'import Probe.Proc\nimport Probe.ProcProofs\nimport Probe.Rfh\n' > Probe.lean
lake build Probe Probe.Inst1Proofs Probe.Pres Probe.Accuracy Probe.Net Probe.Agree Probe.Cmd1Proofs Probe.Cmd2 Probe.Formula Probe.StatsProofs Probe.RulesProofs
echo "built in $DST/Probe"
