import Probe.Stats
open S

theorem length_trunc {α} (d : Nat) (l : List α) : (trunc d l).length = min l.length d := by
  unfold trunc; simp [List.length_drop]; omega

/-- bounded and aligned: one interface/disk/partition history -/
def TimedOk (depth : Nat) (t : Timed) : Prop :=
  t.uptimes.length ≤ depth ∧ ∀ v ∈ t.vals, v.length = t.uptimes.length

theorem pushTimed_ok (depth : Nat) (hd : 0 < depth) (ref : List Timed) (stats : List (Nat × List Q)) (uptime : Int)
    (h : ∀ t ∈ ref, TimedOk depth t) : ∀ t ∈ pushTimed depth ref stats uptime, TimedOk depth t := by
  intro t ht
  unfold pushTimed at ht
  simp only [List.mem_append, List.mem_filterMap, List.mem_map, List.mem_filter] at ht
  cases ht with
  | inl hk =>
    obtain ⟨t0, ht0, hsome⟩ := hk
    obtain ⟨hlen, hal⟩ := h t0 ht0
    split at hsome
    · rename_i k vs hfind
      simp at hsome
      subst hsome
      constructor
      · simp [length_trunc]; omega
      · intro v hv
        simp only [List.mem_map] at hv
        obtain ⟨⟨l, x⟩, hlx, rfl⟩ := hv
        have hl : l ∈ t0.vals := (List.of_mem_zip hlx).1
        simp [length_trunc, hal l hl]
    · simp at hsome
  | inr hf =>
    obtain ⟨⟨k, vs⟩, _, rfl⟩ := hf
    constructor
    · simp; omega
    · intro v hv
      simp only [List.mem_map] at hv
      obtain ⟨x, _, rfl⟩ := hv
      simp

/-- the invariant of C20 for one host / period history -/
structure HostOk (h : Host) : Prop where
  times : h.times.length ≤ h.depth
  mem : h.mem.length ≤ h.depth
  cpu : ∀ l ∈ h.cpu, l.length ≤ h.depth
  net : ∀ t ∈ h.net, TimedOk h.depth t
  disk : ∀ t ∈ h.disk, TimedOk h.depth t
  usage : ∀ t ∈ h.usage, TimedOk h.depth t

theorem push_depth (h : Host) (s : Sample) : (push h s).1.depth = h.depth := by
  unfold push
  split
  · rfl
  · split
    · dsimp only; split <;> rfl
    · rfl

theorem push_ok (h : Host) (s : Sample) (hd : 0 < h.depth) (hok : HostOk h) : HostOk (push h s).1 := by
  unfold push
  split
  · -- first sample: empty histories
    refine ⟨hok.times, hok.mem, ?_, ?_, ?_, ?_⟩ <;> simp [TimedOk] <;> (intros; subst_vars; simp)
  · split
    · dsimp only
      split
      · exact ⟨by simp [length_trunc]; omega, hok.mem, hok.cpu, hok.net, hok.disk, hok.usage⟩
      · refine ⟨by simp [length_trunc]; omega, by simp [length_trunc]; omega, ?_,
          pushTimed_ok _ hd _ _ _ hok.net, pushTimed_ok _ hd _ _ _ hok.disk, pushTimed_ok _ hd _ _ _ hok.usage⟩
        intro l hl
        simp only [List.mem_map] at hl
        obtain ⟨⟨l0, v⟩, _, rfl⟩ := hl
        simp [length_trunc]; omega
    · exact hok

/-- **C20 (bounded + aligned)**: for every stream of samples of any length, with interfaces, disks and partitions
    appearing or vanishing and counters wrapping, every history holds at most `depth` points and every value series
    has exactly as many points as its time series -/
theorem C20_bounded_aligned (period : Int) (depth : Nat) (hd : 0 < depth) (stream : List Sample) :
    HostOk (stream.foldl (fun h s => (push h s).1) { period := period, depth := depth }) := by
  have : ∀ (stream : List Sample) (h : Host), h.depth = depth → HostOk h → HostOk (stream.foldl (fun h s => (push h s).1) h) := by
    intro stream
    induction stream with
    | nil => intro h _ hok; exact hok
    | cons s t ih =>
      intro h hdep hok
      simp only [List.foldl_cons]
      exact ih _ (by rw [push_depth, hdep]) (push_ok h s (by rw [hdep]; exact hd) hok)
  exact this stream _ rfl ⟨by simp, by simp, by simp, by simp, by simp, by simp⟩

/-- **C20 (period gate)**: a point is produced only when at least the period has elapsed since the reference sample -/
theorem C20_period_gate (h : Host) (s : Sample) (hp : (push h s).2 = .point) :
    ∃ r, h.ref = some r ∧ s.now - r.now ≥ h.period := by
  unfold push at hp
  split at hp
  · simp at hp
  · rename_i r hr
    split at hp
    · exact ⟨r, hr, by assumption⟩
    · simp at hp

/-- **C20 (CPU range, exact arithmetic)**: with non-decreasing counters every CPU fraction lies in [0, 100] -/
theorem C20_cpu_range (latest ref : List (Int × Int))
    (hmono : ∀ p ∈ latest.zip ref, p.2.1 ≤ p.1.1 ∧ p.2.2 ≤ p.1.2) :
    ∀ q ∈ cpuStats latest ref, 0 < q.2 ∧ 0 ≤ q.1 ∧ q.1 ≤ 100 * q.2 := by
  intro q hq
  unfold cpuStats at hq
  simp only [List.mem_map] at hq
  obtain ⟨⟨⟨lw, li⟩, ⟨rw, ri⟩⟩, hp, rfl⟩ := hq
  have := hmono _ hp
  simp only at this ⊢
  split <;> simp <;> omega
