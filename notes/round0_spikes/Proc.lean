/-! Spike: model of `ProcessStatus` status synthesis (process.py) — import-free, executable. -/

inductive PState where
  | stopped | starting | running | backoff | stopping | exited | fatal | unknown
  deriving DecidableEq, Repr, Inhabited

namespace PState
/-- supervisor.states.RUNNING_STATES -/
def isRunning : PState → Bool
  | starting | running | backoff => true
  | _ => false
/-- supervisor.states.STOPPED_STATES -/
def isStopped : PState → Bool
  | stopped | exited | fatal | unknown => true
  | _ => false
/-- rank used by `ProcessStatus.running_state`: RUNNING, BACKOFF, STARTING, then STOPPING -/
def rank : PState → Nat
  | running => 0 | backoff => 1 | starting => 2 | stopping => 3 | _ => 4
end PState

structure Info where
  state : PState
  expected : Bool
  ltime : Nat
  etime : Nat
  deriving DecidableEq, Repr, Inhabited

abbrev Infos := List (Nat × Info)

def Infos.get? : Infos → Nat → Option Info
  | [], _ => none
  | (k, v) :: t, i => if k = i then some v else Infos.get? t i

def Infos.set : Infos → Nat → Info → Infos
  | [], i, v => [(i, v)]
  | (k, w) :: t, i, v => if k = i then (k, v) :: t else (k, w) :: Infos.set t i v

def Infos.del : Infos → Nat → Infos
  | [], _ => []
  | (k, w) :: t, i => if k = i then t else (k, w) :: Infos.del t i

structure Proc where
  infos : Infos := []
  running : List Nat := []
  state : PState := .unknown
  expectedExit : Bool := true
  forced : Option PState := none
  deriving Repr, Inhabited

/-- `running_state`: first state of RUNNING, BACKOFF, STARTING, STOPPING present among `states`, else UNKNOWN -/
def runningState (states : List PState) : PState :=
  if states.contains .running then .running
  else if states.contains .backoff then .backoff
  else if states.contains .starting then .starting
  else if states.contains .stopping then .stopping
  else .unknown

/-- most recent entry in local reception time (first maximum in dict order, as Python `max`) -/
def latest : Infos → Option Info
  | [] => none
  | (_, v) :: t => match latest t with
    | none => some v
    | some w => if w.ltime > v.ltime then some w else some v

def updRunning (p : Proc) (i : Nat) (s : PState) : List Nat :=
  if s.isStopped then p.running.erase i
  else if s.isRunning then
    (if p.state.isStopped then [i] else if i ∈ p.running then p.running else p.running ++ [i])
  else p.running

/-- `ProcessStatus.update_status` -/
def updateStatus (p : Proc) (i : Nat) (s : PState) : Proc :=
  let run := updRunning p i s
  if run.length > 1 then
    { p with running := run,
             state := runningState (run.filterMap (fun j => (p.infos.get? j).map (·.state))) }
  else match run with
    | [j] => { p with running := run, state := ((p.infos.get? j).map (·.state)).getD .unknown, expectedExit := true }
    | _ =>
      if p.infos.any (fun kv => kv.2.state == .stopping) then
        { p with running := run, state := .stopping, expectedExit := true }
      else match latest p.infos with
        | some v => { p with running := run, state := v.state, expectedExit := v.expected }
        | none => { p with running := run }

inductive Op where
  | report (i : Nat) (s : PState) (expected : Bool) (etime ltime : Nat)   -- add_info / update_info
  | lose (i : Nat) (ltime : Nat)                                        -- invalidate_identifier
  deriving Repr

def step (p : Proc) : Op → Proc
  | .report i s e et lt =>
      let p1 := { p with infos := p.infos.set i { state := s, expected := e, ltime := lt, etime := et }, forced := none }
      updateStatus p1 i s
  | .lose i lt =>
      if i ∈ p.running then
        match p.infos.get? i with
        | some v =>
          let p1 := { p with infos := p.infos.set i { v with state := .fatal, expected := false, ltime := lt }, forced := none }
          updateStatus p1 i .fatal
        | none => p
      else p

def run (ops : List Op) : Proc := ops.foldl step {}

/-! ### Specification: listing is a per-instance fold over that instance's own reports -/

def listedStep (was : Bool) (s : PState) : Bool :=
  if s.isRunning then true else if s.isStopped then false else was

def specListed (i : Nat) : List Op → Bool
  | ops => ops.foldl (fun was op => match op with
      | .report j s _ _ _ => if j = i then listedStep was s else was
      | .lose j _ => if j = i then false else was) false
