import Probe.Cmd2
open C2

def parseNatList (s : String) : List Nat :=
  if s == "-" then [] else (s.splitOn ",").filterMap (·.toNat?)
def b (s : String) : Bool := s == "1"

def showOut : Out → String
  | .start p i => s!"start:{p}>{i}"
  | .force p s nr => s!"force:{p}:{s.code}:{if nr then 1 else 0}"
  | .stop p i => s!"stop:{p}>{i}"

def obs (w : W) : String :=
  let prog := !w.planned.isEmpty || !w.current.isEmpty
  let sprog := !w.splanned.isEmpty || !w.scurrent.isEmpty
  s!"out=[{String.intercalate "," (w.out.map showOut)}] starting={prog} stopping={sprog}"

def FUEL := 200

def stepLine (w : W) (line : String) : W × String :=
  match (line.trimAscii.toString.splitOn " ") with
  | ["world", ninst, me, nodes, running] =>
    ({ ninst := ninst.toNat!, me := me.toNat!, node := parseNatList nodes, instRunning := (parseNatList running).map (· == 1),
       counter := List.replicate ninst.toNat! 0, pcfg := [], acfg := [], procs := [] }, "ok")
  | ["app", sseq, strat, stseq] =>
    ({ w with acfg := w.acfg ++ [{ startSeq := sseq.toNat!, strategy := Strategy.ofCode strat.toNat!, stopSeq := stseq.toNat! }] }, "ok")
  | ["proc", app, sseq, req, we, load, sf, idents, startsecs, stseq, stopwait] =>
    let c : PCfg := { app := app.toNat!, startSeq := sseq.toNat!, required := b req, waitExit := b we, load := load.toNat!,
                      sfail := if sf == "ABORT" then .abort else if sf == "STOP" then .stop else .cont,
                      idents := if idents == "*" then none else some (parseNatList idents), startsecs := startsecs.toNat!,
                      stopSeq := stseq.toNat!, stopwaitsecs := stopwait.toNat! }
    ({ w with pcfg := w.pcfg ++ [c], procs := w.procs ++ [{}] }, "ok")
  | "op" :: now :: rest =>
    let w := { w with now := now.toNat!, out := [] }
    let act : Option (M Unit) := match rest with
      | ["info", i, p, st, ex, et, lt, dis] => some (do
          -- add_info (snapshot) / update_info (event): same effect on the synthesis
          let x ← proc p.toNat!
          let s := PState.ofCode st.toNat!
          let keepForced := x.forced.isSome && false
          let x1 := { x with infos := setInfo x.infos i.toNat! { state := s, expected := b ex, ltime := lt.toNat!, etime := et.toNat!, disabled := b dis },
                             forced := if keepForced then x.forced else none }
          setProc p.toNat! (updateStatus x1 i.toNat! s))
      | ["event", i, p, st, ex, et, lt] => some (do
          let x ← proc p.toNat!
          let s := PState.ofCode st.toNat!
          let dis := match getInfo x.infos i.toNat! with | some v => v.disabled | none => false
          let x1 := { x with infos := setInfo x.infos i.toNat! { state := s, expected := b ex, ltime := lt.toNat!, etime := et.toNat!, disabled := dis }, forced := none }
          setProc p.toNat! (updateStatus x1 i.toNat! s)
          starterOnEvent FUEL p.toNat! i.toNat!
          stopperOnEvent FUEL p.toNat! i.toNat!)
      | ["startapp", a, strat] => some (startApplication FUEL a.toNat! (Strategy.ofCode strat.toNat!))
      | ["tick", i] => some (modify fun w => { w with counter := w.counter.set i.toNat! (w.counter.getD i.toNat! 0 + 1) })
      | ["check"] => some (do starterCheck FUEL; stopperCheck FUEL)
      | ["stopapp", a] => some (stopApplication FUEL a.toNat!)
      | ["restartapp", a, strat] => some (restartApplication FUEL a.toNat! (Strategy.ofCode strat.toNat!))
      | _ => none
    match act with
    | none => (w, "bad-op")
    | some a => let (_, w') := a.run w; (w', obs w')
  | _ => (w, "bad-op")

partial def loop (h : IO.FS.Stream) (out : IO.FS.Stream) (w : W) : IO Unit := do
  let line ← h.getLine
  if line.isEmpty then return ()
  let (w', o) := stepLine w line
  out.putStrLn o
  loop h out w'

def main : IO Unit := do loop (← IO.getStdin) (← IO.getStdout) default
