import ast, sys
src = open('/repo/supvisors/rpcinterface.py').read()
tree = ast.parse(src)
cls = next(n for n in tree.body if isinstance(n, ast.ClassDef) and n.name == 'RPCInterface')
GUARDS = ('_check_', '_get_starting_strategy', '_get_conciliation_strategy', '_get_application', '_get_process', '_get_logger_level', '_raise')
EFFECT_ROOTS = ('starter', 'stopper', 'fsm', 'supervisor_updater', 'starter_model', 'stats_collector', 'failure_handler')
def call_name(c):
    f = c.func
    parts = []
    while isinstance(f, ast.Attribute):
        parts.append(f.attr); f = f.value
    if isinstance(f, ast.Name): parts.append(f.id)
    return '.'.join(reversed(parts))
def classify(name):
    if name.startswith('self.') and any(name[5:].startswith(g) for g in GUARDS): return 'G'
    if name.startswith('self.supvisors.') and name.split('.')[2] in EFFECT_ROOTS: return 'E'
    if name == 'conciliate_conflicts': return 'E'
    return None
for fn in cls.body:
    if not isinstance(fn, ast.FunctionDef) or fn.name.startswith('_'): continue
    seq = []
    # walk statements in order (top-level only + ifs), ignore nested function defs (onwait)
    def walk(stmts, cond):
        for st in stmts:
            if isinstance(st, ast.FunctionDef): continue
            if isinstance(st, ast.If):
                for c in ast.walk(st.test):
                    if isinstance(c, ast.Call):
                        k = classify(call_name(c))
                        if k: seq.append((k, call_name(c), cond))
                walk(st.body, cond + 1); walk(st.orelse, cond + 1); continue
            if isinstance(st, (ast.For, ast.Try, ast.With)):
                walk(getattr(st, 'body', []), cond + 1)
                for h in getattr(st, 'handlers', []): walk(h.body, cond + 1)
                continue
            for c in ast.walk(st):
                if isinstance(c, ast.Call):
                    k = classify(call_name(c))
                    if k: seq.append((k, call_name(c), cond))
    walk(fn.body, 0)
    s = ' '.join(f"{k}:{n.replace('self.supvisors.','').replace('self.','')}{'?' if c else ''}" for k, n, c in seq)
    first_e = next((i for i, x in enumerate(seq) if x[0] == 'E'), None)
    late_guard = first_e is not None and any(x[0] == 'G' and x[1] != 'self._raise' for x in seq[first_e:])
    print(f"{fn.name:32s} {'LATE-GUARD ' if late_guard else ''}{s}")
