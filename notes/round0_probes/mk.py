import sys, warnings
warnings.filterwarnings('ignore')
from unittest.mock import Mock, patch
import socket, uuid
def gethostbyaddr(x):
    ident = x.split('.')[-1]
    return f'supv0{ident}.bzh', [f'cliche0{ident}', f'supv0{ident}'], [x]
patches = [patch('socket.gethostname', return_value='supv01.bzh'),
           patch('socket.getfqdn', return_value='supv01.bzh'),
           patch('socket.gethostbyaddr', side_effect=gethostbyaddr),
           patch('socket.if_nameindex', return_value=[(1, 'lo'), (2, 'eth0')]),
           patch('uuid.getnode', return_value=1250999896491),
           patch('supvisors.internal_com.mapper.get_interface_info', side_effect=lambda x: {'lo': ('127.0.0.1', '255.0.0.0'), 'eth0': ('10.0.0.1', '255.255.255.0')}[x])]
for p in patches: p.start()
from supvisors.tests.base import MockedSupvisors, DummySupervisor, database_copy
from supvisors.internal_com.mapper import LocalNetwork
opts = {'software_name': 'Supvisors tests','event_link': 'none','event_port': '25200','synchro_timeout': '20','inactivity_ticks': '2','core_identifiers': '','disabilities_file': 'disabilities.json','auto_fence': 'on','rules_files': 'my_movies.xml','starting_strategy': 'CONFIG','conciliation_strategy': 'USER','stats_enabled': 'false','stats_periods': '5,15,60','stats_histo': '10','stats_irix_mode': 'False','logfile': 'AUTO','logfile_maxbytes': '10000','logfile_backups': '12','loglevel': 'blather'}
def make():
    supv = MockedSupvisors(DummySupervisor(), opts)
    return supv
