""" C04 probe: start requests of concurrent application jobs ignore each other's pending requests. """
import sys
sys.path.insert(0, __import__('os').path.join(__import__('os').path.dirname(__import__('os').path.abspath(__file__)), '..', 'round0_spikes'))
import corr_cmd
from corr_cmd import Case, T, UNIT
from supvisors.ttypes import *

viol = 0; checked = 0; first = None
for seed in range(0, 1500):
    c = Case(seed)
    s = c.s
    pending = {}   # namespec -> (instance index, load) requested, process still stopped
    orig = s.rpc_handler.send_start_process
    def send(ident, namespec, extra, c=c, s=s, pending=pending, seed=seed):
        global viol, checked, first
        i = c.ids.index(ident); nd = c.node[i]
        proc = s.context.get_process(namespec)
        # independent node load: everything running on the node + starts already requested there (any job)
        running = 0
        for app in s.context.applications.values():
            for p in app.processes.values():
                for j, jid in enumerate(c.ids):
                    if c.node[j] == nd and p.running_on(jid): running += p.rules.expected_load
        inflight = [(cmd.process, c.ids.index(cmd.identifier), jn) for jn, job in s.starter.current_jobs.items() for cmd in job.current_jobs]
        req = sum(pr.rules.expected_load for pr, j, jn in inflight if c.node[j] == nd and pr.stopped())
        other = [(pr.namespec, jn) for pr, j, jn in inflight if c.node[j] == nd and pr.stopped() and jn != proc.application_name]
        total = running + req + proc.rules.expected_load
        checked += 1
        if total > 100:
            viol += 1
            if first is None: first = (seed, namespec, i, running, req, proc.rules.expected_load, 'in-flight requests of other application jobs:', other)
        pending[namespec] = (i, proc.rules.expected_load)
        orig(ident, namespec, extra)
    s.rpc_handler.send_start_process = send
    c.run()
print('start requests checked:', checked, 'over 100%:', viol, 'first:', first)
