import sys; sys.path.insert(0, __import__('os').path.dirname(__import__('os').path.abspath(__file__)))
from cluster import *
opts = {'synchro_timeout': '15','inactivity_ticks': '2','core_identifiers': '','auto_fence': 'false',
        'starting_strategy': 'CONFIG','conciliation_strategy': 'USER','stats_enabled': 'false','synchro_options':'LIST'}
n=3
net = Net()
sims = [Sim(net, k, n, dict(opts)) for k in range(1, n+1)]
A,B,C = sims
for s in sims: s.listener.on_running(None)
held = set()   # (src_sim, dst_identifier) proxies held
def drain():
    progress = True
    while progress:
        progress = False
        for t in sims:
            while t.inbox: t.deliver(); progress = True
            for ident, p in list(t.rpc_handler.proxy_server.proxies.items()):
                if (t.k, ident) in held: continue
                while p.queue: p.step(); progress = True
def show(tag): print(tag, [s.summary() for s in sims])
def round_(hold=False):
    for s in sims:
        CLOCK[0] += 5.0/n
        s.tick(); drain()
# bring everybody to ELECTION-ready but hold B->C from the moment B is about to publish its master choice
round_(); show('round 0')
round_(); show('round 1')
held.add((B.k, C.identifier))
round_(); show('round 2 (B->C held)')
# A ticks alone and drains
CLOCK[0] += 1.0; A.tick(); drain(); show('A tick')
held.clear(); drain(); show('released')
for r in range(3, 12):
    round_(); show(f'round {r}')
print('critical logs:', [len(s.logger.crit) for s in sims])
