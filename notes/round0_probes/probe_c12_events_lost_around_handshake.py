""" C12 probe: process events of j lost to i around the handshake. """
import sys; sys.path.insert(0, __import__('os').path.dirname(__import__('os').path.abspath(__file__)))
from cluster import *
opts = {'synchro_timeout': '15','inactivity_ticks': '2','core_identifiers': '','auto_fence': 'false',
        'starting_strategy': 'CONFIG','conciliation_strategy': 'USER','stats_enabled': 'false','synchro_options':'LIST'}
n=2
net = Net()
sims = [Sim(net, k, n, dict(opts)) for k in range(1, n+1)]
A,B = sims
# fake supervisor process table on each instance: one process app:p
def info(state, t):
    names = {0:'STOPPED',10:'STARTING',20:'RUNNING',40:'STOPPING',100:'EXITED',200:'FATAL'}
    return {'group':'app','name':'p','state':state,'statename':names[state],'start':0,'stop':0,'now':int(t),'pid':0,'description':'',
            'spawnerr':'','expected':True,'startsecs':1,'stopwaitsecs':1,'extra_args':'','disabled':False,'now_monotonic':t,
            'start_monotonic':0.0,'stop_monotonic':0.0,'program_name':'p','process_index':0,'has_stdout':False,'has_stderr':False}
for s in sims:
    s.truth = 0
    s.rpc.get_all_local_process_info = (lambda s=s: [info(s.truth, CLOCK[0])])
def proc_event(s, state):
    """ what SupervisorListener.on_process_state does once the payload is built """
    s.truth = state
    payload = {'identifier': s.identifier, 'nick_identifier': s.mapper.local_nick_identifier, 'name':'p','group':'app','state':state,
               'now': int(CLOCK[0]), 'now_monotonic': now(), 'pid': 1234 if state in (10,20) else 0, 'expected': True, 'spawnerr':'',
               'extra_args':'', 'disabled': False}
    s.fsm.on_process_state_event(s.context.local_status, payload)
    s.rpc_handler.send_process_state_event(payload)
for s in sims: s.listener.on_running(None)
held=set()
def drain():
    progress = True
    while progress:
        progress = False
        for t in sims:
            while t.inbox: t.deliver(); progress = True
            for ident, p in list(t.rpc_handler.proxy_server.proxies.items()):
                if (t.k, ident) in held: continue
                while p.queue: p.step(); progress = True
def view(s):
    out = {}
    for app in s.context.applications.values():
        for p in app.processes.values():
            out[p.namespec] = (p.state, sorted(x.split(':')[0][-1] for x in p.running_identifiers))
    return out
def show(tag): print(tag, [s.summary() for s in sims], 'A sees', view(A), 'B sees', view(B), 'truth A,B =', A.truth, B.truth)
# A boots first and is alone for 2 ticks
CLOCK[0]+=5; A.tick(); drain(); CLOCK[0]+=5; A.tick(); drain(); show('A alone')
# B boots: first tick of B reaches A -> A starts handshake with B (A's proxy to B executes CHECK_INSTANCE: snapshot of B taken now)
CLOCK[0]+=2; B.tick()
# deliver B's tick to A, let A's proxy->B run the check (snapshot taken: p STOPPED on B) but HOLD A's local notifications
pBA = B.rpc_handler.proxy_server.proxies[A.identifier]; 
while pBA.queue: pBA.step()
while A.inbox: A.deliver()
pAB = A.rpc_handler.proxy_server.proxies[B.identifier]
while pAB.queue: pAB.step()          # CHECK_INSTANCE executed: snapshot read, notifications queued in A's local proxy
show('A took snapshot of B (notifications pending)')
# meanwhile B's process starts: B publishes to A only if B sees A active; B has not received any tick of A yet -> A STOPPED in B's view
proc_event(B, 10); proc_event(B, 20)
print('B proxy->A queue after events:', len(pBA.queue), '(B sees A as', B.context.instances[A.identifier].state.name, ')')
drain(); show('after drain')
for r in range(6):
    for s in sims:
        CLOCK[0]+=2.5; s.tick(); drain()
show('6 rounds later')
