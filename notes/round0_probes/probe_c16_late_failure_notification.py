import sys; sys.path.insert(0, __import__('os').path.dirname(__import__('os').path.abspath(__file__)))
from cluster import *
opts = {'synchro_timeout': '15','inactivity_ticks': '2','core_identifiers': '','auto_fence': 'false',
        'starting_strategy': 'CONFIG','conciliation_strategy': 'USER','stats_enabled': 'false','synchro_options':'LIST'}
n=3
net = Net()
sims = [Sim(net, k, n, dict(opts)) for k in range(1, n+1)]
A,B,C = sims
for s in sims: s.listener.on_running(None)
def drain():
    progress = True
    while progress:
        progress = False
        for t in sims:
            if t.identifier in net.down: continue
            while t.inbox: t.deliver(); progress = True
            for ident, p in list(t.rpc_handler.proxy_server.proxies.items()):
                while p.queue: p.step(); progress = True
def show(tag): print(tag, [s.summary() for s in sims])
def round_():
    for s in sims:
        if s.identifier in net.down: continue
        CLOCK[0] += 5.0/n
        s.tick(); drain()
for r in range(5): round_()
show('steady')
# 1. late INSTANCE_FAILURE notification for a STOPPED peer
net.down.add(C.identifier)
# B pushes two publications to C: both fail -> two notifications; process first, tick (invalidate), then second
pB = B.rpc_handler.proxy_server.get_proxy(C.identifier)
B.rpc_handler.send_state_event(B.state_modes.local_state_modes.serial())
B.rpc_handler.send_state_event(B.state_modes.local_state_modes.serial())
pB.step()   # first failure -> notification queued in B's local proxy
loc = B.rpc_handler.proxy_server.get_proxy(B.identifier)
pB.step()   # second failure (status still RUNNING -> has_active_state) -> second notification
print('local proxy queue', len(loc.queue))
loc.step(); B.deliver(); show('after 1st failure notif')
CLOCK[0]+=5; B.tick(); show('after B tick')
loc.step(); B.deliver(); show('after 2nd failure notif')
print('B critical:', [c[:200] for c in B.logger.crit])
