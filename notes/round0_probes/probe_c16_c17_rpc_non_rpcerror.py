import sys; sys.path.insert(0, __import__('os').path.dirname(__import__('os').path.abspath(__file__)))
from cluster import *
from supervisor.xmlrpc import RPCError
opts = {'synchro_timeout': '15','inactivity_ticks': '2','core_identifiers': '','auto_fence': 'false',
        'starting_strategy': 'CONFIG','conciliation_strategy': 'USER','stats_enabled': 'false','synchro_options':'LIST'}
n=3
net = Net()
sims = [Sim(net, k, n, dict(opts)) for k in range(1, n+1)]
A,B,C = sims
for s in sims: s.listener.on_running(None)
def drain():
    progress = True
    while progress:
        progress = False
        for t in sims:
            if t.identifier in net.down: continue
            while t.inbox: t.deliver(); progress = True
            for ident, p in list(t.rpc_handler.proxy_server.proxies.items()):
                while p.queue: p.step(); progress = True
def show(tag): print(tag, [s.summary() for s in sims])
def round_():
    for s in sims:
        if s.identifier in net.down: continue
        CLOCK[0] += 5.0/n
        s.tick(); drain()
for r in range(5): round_()
show('steady')
# master A dies; B notices through an XML-RPC failure (publication), before its next tick
net.down.add(A.identifier)
B.rpc_handler.send_state_event(B.state_modes.local_state_modes.serial())
drain(); show('B got failure notification about master')
for name in ('restart', 'shutdown'):
    try:
        print(name, '->', getattr(B.rpc, name)())
    except RPCError as e:
        print(name, 'RPCError', e.code, e.text)
    except Exception as e:
        print(name, 'NON-RPC exception:', type(e).__name__, e)
# also: get_network_info with nick identifier, restart_application on unmanaged
for call in (lambda: B.rpc.get_network_info('10.0.0.3'), lambda: B.rpc.get_instance_info('10.0.0.3')[0]['statename']):
    try: print('->', str(call())[:80])
    except RPCError as e: print('RPCError', e.code, e.text)
    except Exception as e: print('NON-RPC exception:', type(e).__name__, e)
