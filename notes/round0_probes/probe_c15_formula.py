""" C15 probe: hostile / ill-formed operational_status formulas on the real evaluator. """
import warnings; warnings.filterwarnings('ignore')
from unittest.mock import Mock
from supvisors.application import ApplicationRules, ApplicationStatus
from supvisors.ttypes import ApplicationStatusParseError
supv = Mock(); supv.logger = Mock(level=10)
app = ApplicationStatus('app', ApplicationRules(supv), supv)
for f in ['os.system("x")', 'all()', 'import os', 'pass', '"("', 'all(x="a")', '"a" and 1', 'not "nomatch"',
          '(lambda: 1)()', '"a"()', 'f"{1}"', '1 if 2 else 3', '"a" < "b"', '[x for x in y]', '-"a"', 'any("a","b")']:
    r = ApplicationRules(supv)
    try:
        r.status_formula = f
    except ApplicationStatusParseError as e:
        print(repr(f), 'SETTER-PARSEERROR', e); continue
    except Exception as e:
        print(repr(f), 'SETTER-EXC', type(e).__name__, e); continue
    app.rules = r
    try:
        app.update(); print(repr(f), 'ok major=', app.major_failure)
    except Exception as e:
        print(repr(f), 'UPDATE-EXC', type(e).__name__, e)
