""" C04/C14 probe (mapper.identify duplicates) and C19 probe (test_start side effect + prediction). """
import sys, json; sys.path.insert(0, __import__('os').path.dirname(__import__('os').path.abspath(__file__)))
from mk import *
from supvisors.commander import Starter, Stopper, StarterModel
from supvisors.strategy import RunningFailureHandler
from supvisors.ttypes import *
supv = make()
payload = {'identifier': '10.0.0.2:25000', 'nick_identifier': '10.0.0.2', 'host_id': '10.0.0.2', 'http_port': 25000, 'stereotypes': [],
           'network': {'machine_id': 'aa:bb', 'fqdn': 'supv02.bzh', 'addresses': {'eth0': {'host_name': 'supv02.bzh', 'aliases': [], 'ipv4_addresses': ['10.0.0.2'],
                       'nic_info': {'nic_name': 'eth0', 'ipv4_address': '10.0.0.2', 'netmask': '255.255.255.0'}}}}}
supv.mapper.identify(payload); supv.mapper.identify(payload)
print('nodes after two identifications:', supv.mapper.nodes)

supv = make(); supv.parser = None
supv.starter = Starter(supv); supv.stopper = Stopper(supv); supv.starter_model = StarterModel(supv)
supv.failure_handler = RunningFailureHandler(supv)
ctx = supv.context
for sup_id in supv.mapper.instances.values():
    sup_id.local_view = LocalNetwork(supv.logger)
    mid = 'node' + sup_id.ip_address.split('.')[-1]
    sup_id.local_view.machine_id = mid
    supv.mapper.nodes.setdefault(mid, []).append(sup_id.identifier)
A, B = list(supv.mapper.instances)[:2]
def info(name, state=0):
    return {'group': 'app', 'name': name, 'state': state, 'statename': 'STOPPED', 'start': 0, 'stop': 0, 'now': 100, 'pid': 0, 'description': '',
            'spawnerr': '', 'expected': True, 'startsecs': 1, 'stopwaitsecs': 1, 'extra_args': '', 'disabled': False, 'now_monotonic': 100.0,
            'start_monotonic': 0.0, 'stop_monotonic': 0.0, 'program_name': name, 'process_index': 0, 'has_stdout': False, 'has_stderr': False}
for i in (A, B):
    ctx.instances[i]._state = SupvisorsInstanceStates.CHECKING
    ctx.load_processes(ctx.instances[i], [info('p1'), info('p2')])
    ctx.instances[i]._state = SupvisorsInstanceStates.RUNNING
app = ctx.applications['app']; app.rules.managed = True
app.processes['p1'].rules.start_sequence = 1; app.processes['p1'].rules.expected_load = 50
app.processes['p2'].rules.start_sequence = 2; app.processes['p2'].rules.expected_load = 50
app.update_sequences(); app.update()
before = json.dumps({n: p.info_map for n, p in app.processes.items()}, sort_keys=True, default=str)
res = supv.starter_model.test_start_application(StartingStrategies.LESS_LOADED, app)
print('prediction', [(r['process_name'], r['running_identifiers']) for r in res])
after = json.dumps({n: p.info_map for n, p in app.processes.items()}, sort_keys=True, default=str)
print('live info_map unchanged:', before == after)
for n, p in app.processes.items():
    print(n, 'state', p.state, 'per-instance', {k: v['state'] for k, v in p.info_map.items()}, 'running', p.running_identifiers)
