""" Throw-away prototype: N real Supvisors instances in one process with a simulated network. """
import sys, json, random, warnings, copy
warnings.filterwarnings('ignore')
from unittest.mock import Mock, patch
import socket, uuid, time

CLOCK = [1000.0]
def now():
    CLOCK[0] += 0.001
    return CLOCK[0]
patch('time.monotonic', side_effect=now).start()
patch('time.time', side_effect=now).start()

CUR = [1]
def gethostbyaddr(x):
    ident = x.split('.')[-1]
    return f'supv0{ident}.bzh', [f'cliche0{ident}', f'supv0{ident}'], [x]
patch('socket.gethostname', side_effect=lambda: f'supv0{CUR[0]}.bzh').start()
patch('socket.getfqdn', side_effect=lambda *a: f'supv0{CUR[0]}.bzh').start()
patch('socket.gethostbyaddr', side_effect=gethostbyaddr).start()
patch('socket.if_nameindex', return_value=[(1, 'lo'), (2, 'eth0')]).start()
patch('uuid.getnode', side_effect=lambda: 1250999896491 + CUR[0]).start()
patch('supvisors.internal_com.mapper.get_interface_info',
      side_effect=lambda x: {'lo': ('127.0.0.1', '255.0.0.0'), 'eth0': (f'10.0.0.{CUR[0]}', '255.255.255.0')}[x]).start()

from supervisor.loggers import Logger
from supvisors.tests.base import DummySupervisor
from supvisors.options import SupvisorsOptions, SupvisorsServerOptions
from supvisors.supervisordata import SupervisorData
from supvisors.supervisorupdater import SupervisorUpdater
from supvisors.internal_com.mapper import SupvisorsMapper
from supvisors.internal_com.rpchandler import RpcHandler
from supvisors.internal_com.supervisorproxy import SupervisorProxy, InternalEventHeaders, SupervisorProxyException
from supvisors.statemodes import SupvisorsStateModes
from supvisors.context import Context
from supvisors.commander import Starter, Stopper, StarterModel
from supvisors.strategy import RunningFailureHandler
from supvisors.statemachine import FiniteStateMachine
from supvisors.listener import SupervisorListener
from supvisors.rpcinterface import RPCInterface
from supvisors.ttypes import *


class Net:
    def __init__(self):
        self.instances = {}      # identifier -> Sim
        self.down = set()        # crashed identifiers
        self.cut = set()         # (a,b) unordered pairs partitioned
        self.log = []

    def reachable(self, a, b):
        return b not in self.down and a not in self.down and frozenset((a, b)) not in self.cut


class FakeNS:
    def __init__(self, fn): self._fn = fn
    def __getattr__(self, name): return lambda *a: self._fn(name, *a)


class FakeServerProxy:
    def __init__(self, net, src, dst):
        self.net, self.src, self.dst = net, src, dst
        self.supervisor = FakeNS(self._supervisor)
        self.supvisors = FakeNS(self._supvisors)
    def _check(self):
        if not self.net.reachable(self.src, self.dst):
            raise ConnectionRefusedError('sim')
    def _supervisor(self, name, *args):
        self._check()
        tgt = self.net.instances[self.dst]
        if name == 'sendRemoteCommEvent':
            tgt.inbox.append((args[0], args[1]))
            return True
        if name in ('restart', 'shutdown'):
            tgt.orders.append(name)
            return True
        raise NotImplementedError(name)
    def _supvisors(self, name, *args):
        self._check()
        tgt = self.net.instances[self.dst]
        res = getattr(tgt.rpc, name)(*args)
        return json.loads(json.dumps(res))


class SimProxy(SupervisorProxy):
    def __init__(self, status, supvisors, net):
        super().__init__(status, supvisors)
        self.net = net
        self.queue = []
    @property
    def proxy(self):
        return FakeServerProxy(self.net, self.supvisors.mapper.local_identifier, self.status.identifier)
    def push_message(self, message):
        self.queue.append(message)
    def step(self):
        event = self.queue.pop(0)
        try:
            event_type, (source, event_body) = event
            if event_type == InternalEventHeaders.REQUEST:
                self.execute(event_body)
            elif event_type == InternalEventHeaders.PUBLICATION:
                self.publish(source, event_body)
            elif event_type == InternalEventHeaders.NOTIFICATION:
                self.send_remote_comm_event(SUPVISORS_NOTIFICATION, (source, event_body))
        except SupervisorProxyException:
            # same as SupervisorProxyThread.handle_exception
            if self.status.identifier == self.local_identifier:
                pass
            elif self.status.has_active_state():
                origin = self._get_origin(self.status.identifier)
                message = NotificationHeaders.INSTANCE_FAILURE.value, None
                self.supvisors.rpc_handler.proxy_server.push_notification((origin, message))


class SimProxyServer:
    def __init__(self, supvisors, net):
        self.supvisors, self.net = supvisors, net
        self.proxies = {}
    @property
    def local_identifier(self): return self.supvisors.mapper.local_identifier
    def get_proxy(self, identifier):
        proxy = self.proxies.get(identifier)
        status = self.supvisors.context.instances[identifier]
        if not proxy and not status.isolated:
            proxy = self.proxies[identifier] = SimProxy(status, self.supvisors, self.net)
        elif proxy and status.isolated:
            del self.proxies[identifier]
            proxy = None
        return proxy
    def stop(self): pass
    def push_request(self, identifier, message):
        proxy = self.get_proxy(identifier)
        if proxy: proxy.push_message((InternalEventHeaders.REQUEST, (self.local_identifier, message)))
    def push_publication(self, message):
        for identifier in self.supvisors.mapper.instances:
            if identifier != self.local_identifier:
                proxy = self.get_proxy(identifier)
                if proxy: proxy.push_message((InternalEventHeaders.PUBLICATION, (self.local_identifier, message)))
    def push_notification(self, message):
        proxy = self.get_proxy(self.local_identifier)
        if proxy: proxy.push_message((InternalEventHeaders.NOTIFICATION, message))


class CritLogger:
    """ minimal logger collecting critical/error messages """
    level = 50
    handlers = []
    def __init__(self, name): self.name, self.crit = name, []
    def critical(self, msg): self.crit.append(msg); print(f'[{self.name}] CRITICAL {msg[:300]}')
    def error(self, msg): pass
    def warn(self, msg): pass
    def info(self, msg): pass
    def debug(self, msg): pass
    def trace(self, msg): pass
    def blather(self, msg): pass
    def log(self, level, msg): pass


class Sim:
    def __init__(self, net, k, n, opts):
        CUR[0] = k
        self.k = k
        self.net = net
        supervisord = DummySupervisor()
        supervisord.process_groups = {}
        self.logger = CritLogger(f'S{k}')
        self.options = SupvisorsOptions(supervisord, self.logger, **opts)
        self.options.rules_files = []
        self.supervisor_data = SupervisorData(self, supervisord)
        supervisord.supvisors = self
        self.supervisor_updater = Mock()
        self.mapper = SupvisorsMapper(self)
        self.mapper.configure([f'10.0.0.{i}' for i in range(1, n + 1)], set(), list(self.options.core_identifiers))
        self.server_options = Mock()
        self.stats_collector = None
        self.host_compiler = Mock(); self.process_compiler = Mock()
        self.discovery_handler = None; self.external_publisher = None
        self.state_modes = SupvisorsStateModes(self)
        self.context = Context(self)
        self.starter = Starter(self); self.stopper = Stopper(self); self.starter_model = StarterModel(self)
        self.failure_handler = RunningFailureHandler(self)
        self.parser = None
        self.listener = SupervisorListener(self)
        self.fsm = FiniteStateMachine(self)
        self.rpc_handler = RpcHandler(self)
        self.rpc_handler.proxy_server = SimProxyServer(self, net)
        self.sessions = Mock()
        self.rpc = RPCInterface(self)
        # patch rpc get_all_local_process_info (no real supervisor)
        self.rpc.get_all_local_process_info = lambda: []
        self.inbox = []
        self.orders = []
        self.identifier = self.mapper.local_identifier
        net.instances[self.identifier] = self
        self.listener.counter = 0

    # scheduler actions
    def tick(self):
        ev = Mock(); ev.when = now()
        self.listener.on_tick(ev)

    def deliver(self):
        typ, data = self.inbox.pop(0)
        ev = Mock(); ev.type = typ; ev.data = data
        self.listener.on_remote_event(ev)

    def proxies_with_work(self):
        return [p for p in self.rpc_handler.proxy_server.proxies.values() if p.queue]

    def summary(self):
        sm = self.state_modes
        return (sm.state.name, sm.master_identifier.split(':')[0][-1:] if sm.master_identifier else '-',
                ''.join(s.name[0] if s.name != 'CHECKED' else 'k' for s in sm.local_state_modes.instance_states.values()))
