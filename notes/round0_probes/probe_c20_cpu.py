""" C20 probe: CPU percentage one ulp above 100. """
import warnings; warnings.filterwarnings('ignore')
from supvisors.statscompiler import cpu_statistics
for w in (11.54, 21.24, 21.99, 40.98):
    print(w, repr(cpu_statistics([(w, 0.0)], [(0.0, 0.0)])[0]))
