#!/bin/sh
# Builds the whole framework offline from files on disk: the Lean library (models, lemmas, property theorems) and the
# native model drivers.  Run once after a fresh restore; every check re-runs `lake build` for its own targets.
set -e
cd "$(dirname "$0")"
/venv/bin/python tools/extract.py >/dev/null
cd lean
lake build Supv $(ls run | sed -n "s/^C\([0-9]*\)\.lean$/drv_c\1/p")
echo "setup ok"
