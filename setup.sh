#!/bin/sh
# Builds the whole framework offline from files on disk: the Lean library (models, lemmas, property theorems) and the
# native model drivers.  Run once after a fresh restore; every check re-runs `lake build` for its own targets.
set -e
cd "$(dirname "$0")"
/venv/bin/python tools/extract.py >/dev/null
cd lean
lake build Supv $(ls run | sed -n 's/^\(.*\)\.lean$/drv_\1/p' | tr 'A-Z' 'a-z')
echo "setup ok"
